"""Engines M (program model), T (layer typing) and G (call graph).

Everything here works on the *source text* of the package under analysis
(`ast` only): nothing of the repository is imported or executed.

M : class table, MRO, subclasses, properties/setters, static/class methods,
    module functions, name-mangled private fields.
T : flow-insensitive per-function type environment over the repository's own
    layer types (Point2D, Box, BezierCurve, PlanarCurve, JordanCurve, the shape
    classes, numbers, booleans, sequences of those) and, on top of it,
    resolution of every call / operator / attribute access to the repository
    functions it may dispatch to.
G : the resolved call graph with path search.
"""
from __future__ import annotations

import ast
import collections
import glob
import hashlib
import os

from . import pat

NUM = "num"
BOOL = "bool"
NONE = "None"
UNK = "?"
EXT = "ext"      # a numpy / pynurbs / matplotlib object

DEFAULT_SRC = "/repo/src/shapepy"

EXT_ROOTS = ("np", "math", "pynurbs", "fractions", "matplotlib", "pyplot",
             "Path", "PathPatch", "Fraction")


class AnalysisError(Exception):
    """The analysis cannot decide (anchor vanished, idiom not recognised)."""


class Fn:
    def __init__(self, mod, cls, node, kind, path):
        self.mod, self.cls, self.node, self.kind, self.path = mod, cls, node, kind, path
        self.name = node.name
        base = f"{mod}.{cls + '.' if cls else ''}{node.name}"
        self.qname = base + (":set" if kind == "setter" else "")

    def where(self, node=None):
        n = node if node is not None else self.node
        return f"{self.path}:{getattr(n, 'lineno', 0)}"

    @property
    def params(self):
        a = self.node.args
        return ([p.arg for p in a.posonlyargs + a.args]
                + ([a.vararg.arg] if a.vararg else [])
                + [p.arg for p in a.kwonlyargs])

    @property
    def has_self(self):
        return self.kind in ("method", "getter", "setter", "class") or self.name == "__new__"

    def __repr__(self):
        return f"<Fn {self.qname}>"


class Model:
    """Engine M."""

    def __init__(self, src=None):
        self.src = src or os.environ.get("VERIF_SRC") or DEFAULT_SRC
        self.classes = {}     # name -> (mod, node, bases)
        self.funcs = {}       # qname -> Fn
        self.methods = collections.defaultdict(dict)   # cls -> name -> Fn
        self.setters = collections.defaultdict(dict)
        self.modfuncs = {}    # name -> Fn
        self.modules = {}     # mod -> ast.Module
        self.paths = {}       # mod -> file path
        self.class_consts = collections.defaultdict(dict)  # cls -> name -> ast expr
        self.digest = hashlib.sha256()
        files = sorted(glob.glob(os.path.join(self.src, "*.py")))
        if not files:
            raise AnalysisError(f"no python sources under {self.src}")
        import warnings as _w
        with _w.catch_warnings():
            _w.simplefilter("ignore")
            try:
                renames = pat.private_field_renames([ast.parse(open(f, encoding="utf-8").read()) for f in files])
            except SyntaxError:
                renames = None
        self.field_renames = renames
        for f in files:
            mod = os.path.basename(f)[:-3]
            text = open(f, encoding="utf-8").read()
            self.digest.update(text.encode())
            tree = pat.desugar_match(ast.parse(text, filename=f), renames)
            self.modules[mod] = tree
            self.paths[mod] = f
            for n in tree.body:
                if isinstance(n, ast.ClassDef):
                    self.classes[n.name] = (mod, n, [ast.unparse(b) for b in n.bases])
                    for m in n.body:
                        if isinstance(m, ast.FunctionDef):
                            decos = [ast.unparse(d) for d in m.decorator_list]
                            kind = "method"
                            if "staticmethod" in decos:
                                kind = "static"
                            elif "classmethod" in decos:
                                kind = "class"
                            elif "property" in decos:
                                kind = "getter"
                            elif any(d.endswith(".setter") for d in decos):
                                kind = "setter"
                            fn = Fn(mod, n.name, m, kind, f)
                            self.funcs[fn.qname] = fn
                            if kind == "setter":
                                self.setters[n.name][m.name] = fn
                            else:
                                self.methods[n.name][m.name] = fn
                        elif isinstance(m, ast.Assign) and len(m.targets) == 1 and isinstance(m.targets[0], ast.Name):
                            self.class_consts[n.name][m.targets[0].id] = m.value
                elif isinstance(n, ast.FunctionDef):
                    fn = Fn(mod, None, n, "func", f)
                    self.funcs[fn.qname] = fn
                    self.modfuncs[n.name] = fn
        self.digest = self.digest.hexdigest()
        self._mro = {}
        self._subs = {}

    # -- class hierarchy ---------------------------------------------------
    def mro(self, c):
        if c not in self._mro:
            out = []

            def rec(k):
                if k in out or k not in self.classes:
                    return
                out.append(k)
                for b in self.classes[k][2]:
                    rec(b)
            rec(c)
            self._mro[c] = out
        return self._mro[c]

    def subclasses(self, c):
        if c not in self._subs:
            self._subs[c] = [d for d in self.classes if c in self.mro(d) and d != c]
        return self._subs[c]

    def lookup(self, c, name, virtual=True):
        """candidate Fn for attribute `name` on static type c (incl. overrides
        in subclasses: members such as `jordans` only exist below the base)."""
        res = []
        for k in self.mro(c):
            if name in self.methods[k]:
                res.append(self.methods[k][name])
                break
        if virtual:
            for d in self.subclasses(c):
                if name in self.methods[d] and self.methods[d][name] not in res:
                    res.append(self.methods[d][name])
        return res

    def lookup_setter(self, c, name):
        for k in [c] + self.mro(c)[1:] + self.subclasses(c):
            if name in self.setters[k]:
                return self.setters[k][name]
        return None

    def fn(self, qname):
        """anchor lookup: a vanished anchor makes the analysis inconclusive."""
        if qname not in self.funcs:
            raise AnalysisError(f"anchor function {qname} not found in {self.src}")
        return self.funcs[qname]

    def cls(self, name):
        if name not in self.classes:
            raise AnalysisError(f"anchor class {name} not found in {self.src}")
        return self.classes[name]

    def census(self):
        return {"modules": len(self.modules), "classes": len(self.classes),
                "functions": len(self.funcs), "source_digest": self.digest[:16]}


# ---------------------------------------------------------------------------
# Engine T

# Members annotated `Any` / unannotated, typed by reading the pinned tree.
OVERRIDE_RET = {
    "curve.BaseCurve.__call__": "Point2D",
    "curve.BezierCurve.eval": ("seq", "Point2D"),
    "curve.PlanarCurve.eval": ("seq", "Point2D"),
    "shape.ShapeFromJordans": "BaseShape",
    "shape.DivideConnecteds": ("seq", "DefinedShape"),
    "plot.ShapePloter.gca": EXT, "plot.ShapePloter.gcf": EXT,
}
# unannotated parameters holding third-party objects (from the docstrings)
PARAM_TYPES = {
    ("jordancurve.JordanCurve.from_full_curve", "full_curve"): EXT,
}
# private fields, from the constructors / setters
FIELD_TYPES = {
    ("PlanarCurve", "_PlanarCurve__planar"): "BezierCurve",
    ("SimpleShape", "_SimpleShape__jordancurve"): "JordanCurve",
    ("JordanCurve", "_JordanCurve__segments"): ("seq", "PlanarCurve"),
    ("ConnectedShape", "_ConnectedShape__subshapes"): ("seq", "SimpleShape"),
    ("DisjointShape", "_DisjointShape__subshapes"): ("seq", "DefinedShape"),
    ("BezierCurve", "_BezierCurve__ctrlpoints"): ("seq", "Point2D"),
    ("Point2D", "_x"): NUM, ("Point2D", "_y"): NUM,
    ("Box", "lowpt"): "Point2D", ("Box", "toppt"): "Point2D",
    ("JordanCurve", "_JordanCurve__lenght"): NUM,
}


def is_type(t):
    return isinstance(t, tuple) and t and t[0] == "type"


class Typer:
    """Factory of per-function inference results for one Model."""

    def __init__(self, model):
        self.m = model
        self._inf = {}
        self._param_consts = None

    def param_string_constants(self):
        """{(function qname, parameter): set of string constants passed at every call site} for parameters that only
        ever receive string literals (used to resolve `getattr(obj, method_name)(...)` in a helper)"""
        if self._param_consts is not None:
            return self._param_consts
        M = self.m
        by_name = collections.defaultdict(list)
        for q, fn in M.funcs.items():
            by_name[fn.name].append(fn)
        acc, poisoned = collections.defaultdict(set), set()
        for q, fn in M.funcs.items():
            for n in ast.walk(fn.node):
                if not isinstance(n, ast.Call):
                    continue
                name = n.func.attr if isinstance(n.func, ast.Attribute) else n.func.id if isinstance(n.func, ast.Name) else None
                for g in by_name.get(name, []):
                    ps = [a.arg for a in g.node.args.posonlyargs + g.node.args.args]
                    if g.kind in ("method", "getter", "setter", "class") and isinstance(n.func, ast.Attribute) and ps:
                        ps = ps[1:]
                    pairs = list(zip(ps, n.args)) + [(k.arg, k.value) for k in n.keywords if k.arg in ps]
                    for pn, a in pairs:
                        if isinstance(a, ast.Constant) and isinstance(a.value, str):
                            acc[(g.qname, pn)].add(a.value)
                        else:
                            poisoned.add((g.qname, pn))
        self._param_consts = {k: v for k, v in acc.items() if k not in poisoned}
        return self._param_consts

    def ann_type(self, a):
        M = self.m
        if a is None:
            return UNK
        if isinstance(a, ast.Constant) and isinstance(a.value, str):
            try:
                return self.ann_type(ast.parse(a.value, mode="eval").body)
            except SyntaxError:
                return UNK
        if isinstance(a, ast.Name):
            if a.id in M.classes:
                return a.id
            if a.id in ("float", "int"):
                return NUM
            if a.id == "bool":
                return BOOL
            return UNK
        if isinstance(a, ast.Attribute):
            return self.ann_type(ast.Name(id=a.attr))
        if isinstance(a, ast.Subscript):
            base = ast.unparse(a.value)
            sl = a.slice
            elts = sl.elts if isinstance(sl, ast.Tuple) else [sl]
            if base in ("Iterator", "Iterable", "Sequence", "Generator", "Set", "FrozenSet", "Collection", "set", "frozenset") and elts:
                return ("seq", self.ann_type(elts[0]))
            if base in ("Tuple", "tuple", "List", "list"):
                ts = [self.ann_type(e) for e in elts]
                return ("seq", ts[0]) if len(set(map(str, ts))) == 1 else ("tup", tuple(ts))
            if base == "Optional":
                return self.ann_type(elts[0])
            if base == "Union":
                ts = [self.ann_type(e) for e in elts if ast.unparse(e) != "None"]
                ts = [t for t in ts if t != UNK]
                return ts[0] if len(ts) == 1 else (("union", tuple(ts)) if ts else UNK)
        return UNK

    def classes_of(self, t):
        if isinstance(t, str) and t in self.m.classes:
            return [t]
        if isinstance(t, tuple) and t and t[0] == "union":
            return [c for x in t[1] for c in self.classes_of(x)]
        return []

    def of(self, fn):
        q = fn.qname
        if q not in self._inf:
            self._inf[q] = Infer(self, fn).run()
        return self._inf[q]

    def derived_fields(self):
        """types of the (private) fields the frozen table does not name, read off the stores in constructors and setters:
        `self.F = Cls(..)`, `self.F = copy(x)` / `x` with an annotated parameter x -- so that a renamed private field
        keeps its type"""
        d = self.__dict__.get("_derived_fields")
        if d is not None:
            return d
        d = self.__dict__["_derived_fields"] = {}
        for q, fn in self.m.funcs.items():
            if not fn.cls or not fn.params:
                continue
            selfn = fn.params[0]
            ann = {a.arg: self.ann_type(a.annotation) for a in fn.node.args.posonlyargs + fn.node.args.args}
            for st in ast.walk(fn.node):
                if isinstance(st, ast.Assign) and len(st.targets) == 1 and isinstance(st.targets[0], ast.Attribute) \
                        and isinstance(st.targets[0].value, ast.Name) and st.targets[0].value.id == selfn:
                    name = st.targets[0].attr
                    if name.startswith("__") and not name.endswith("__"):
                        name = f"_{fn.cls}{name}"
                    if (fn.cls, name) in FIELD_TYPES:
                        continue
                    v = st.value
                    while isinstance(v, ast.Call) and isinstance(v.func, ast.Name) and v.func.id in ("copy", "deepcopy") and v.args:
                        v = v.args[0]
                    t = UNK
                    if isinstance(v, ast.Call) and isinstance(v.func, ast.Name) and v.func.id in self.m.classes:
                        t = v.func.id
                    elif isinstance(v, ast.Name) and ann.get(v.id, UNK) != UNK:
                        t = ann[v.id]
                    elif isinstance(v, ast.Call) and isinstance(v.func, ast.Name) and v.func.id in ("tuple", "list") and v.args \
                            and isinstance(v.args[0], ast.Name) and ann.get(v.args[0].id, UNK) != UNK:
                        t = ann[v.args[0].id]
                    if t != UNK and UNK not in str(t):
                        d.setdefault((fn.cls, name), t)
        return d

    def ret_type(self, fn):
        """the annotated return type; when the annotation says nothing, the join of what the body returns / yields
        (generators give a sequence) -- inferred once, recursion cut"""
        t = self.ann_type(fn.node.returns)
        if t != UNK and UNK not in str(t):
            return t
        cache = self.__dict__.setdefault("_ret", {})
        q = fn.qname
        if q in cache:
            return cache[q] if cache[q] is not None else t
        cache[q] = None                                  # in progress
        got = UNK
        try:
            inf = self.of(fn)
            rets = [x for x in getattr(inf, "returned", []) if x != UNK]
            ys = [x for x in getattr(inf, "yielded", []) if x != UNK]
            if ys and len({str(x) for x in ys}) == 1:
                got = ("seq", ys[0])
            elif rets and len({str(x) for x in rets}) == 1 and not getattr(inf, "yielded", []):
                got = rets[0]
        except RecursionError:
            got = UNK
        cache[q] = got if got != UNK else t
        return cache[q]

    def all(self):
        for q, fn in self.m.funcs.items():
            self.of(fn)
        return self._inf


def elem(t):
    if isinstance(t, tuple) and t and t[0] == "seq":
        return t[1]
    if isinstance(t, tuple) and t and t[0] == "tup":
        return t[1][0] if len(set(map(str, t[1]))) == 1 else UNK
    if t == "Point2D":
        return NUM
    if t == EXT:
        return EXT
    return UNK


def join_types(ts):
    """several candidate types (virtual dispatch to getters of different subclasses) -> one type"""
    uniq = []
    for t in ts:
        if t not in uniq:
            uniq.append(t)
    if len(uniq) == 1:
        return uniq[0]
    if all(isinstance(t, tuple) and t and t[0] == "seq" for t in uniq):
        return ("seq", join_types([t[1] for t in uniq]))
    flat = []
    for t in uniq:
        if isinstance(t, tuple) and t and t[0] == "union":
            flat += [x for x in t[1] if x not in flat]
        elif isinstance(t, str) and t not in (UNK, NONE):
            if t not in flat:
                flat.append(t)
        else:
            return uniq[0]
    return ("union", tuple(flat)) if len(flat) > 1 else (flat[0] if flat else uniq[0])


BINOPS = {ast.Add: "__add__", ast.Sub: "__sub__", ast.Mult: "__mul__",
          ast.Div: "__truediv__", ast.BitOr: "__or__", ast.BitAnd: "__and__",
          ast.BitXor: "__xor__"}
AUGOPS = {ast.Add: "__iadd__", ast.Sub: "__isub__", ast.Mult: "__imul__",
          ast.Div: "__itruediv__", ast.BitOr: "__or__"}
ROPS = {"__mul__": "__rmul__", "__or__": "__ror__"}


class Infer:
    """Per function: type environment + resolved calls.

    `calls` is a list of (node, kind, targets) with kind in
    call / dunder / getter / setter / ctor / builtin / external / cha /
    unresolved; `by_node[id(node)]` gives the entries of one AST node."""

    def __init__(self, typer, fn):
        self.t = typer
        self.m = typer.m
        self.fn = fn
        self.env = {}
        self.calls = []
        self.record = False
        self.returned, self.yielded = [], []
        a = fn.node.args
        params = a.posonlyargs + a.args + ([a.vararg] if a.vararg else []) + a.kwonlyargs
        for i, p in enumerate(params):
            if i == 0 and fn.kind in ("method", "getter", "setter"):
                self.env[p.arg] = fn.cls
            elif i == 0 and (fn.kind == "class" or fn.name == "__new__"):
                self.env[p.arg] = ("type", fn.cls)
            else:
                t = typer.ann_type(p.annotation)
                t = PARAM_TYPES.get((fn.qname, p.arg), t)
                if a.vararg is p:
                    t = ("seq", t) if t != UNK else UNK
                self.env[p.arg] = t

    def run(self):
        for _ in range(3):
            for st in self.fn.node.body:
                self.stmt(st)
        self.calls = []
        self.record = True
        for st in self.fn.node.body:
            self.stmt(st)
        self.record = False
        self.by_node = collections.defaultdict(list)
        for node, kind, tg in self.calls:
            self.by_node[id(node)].append((kind, tg))
        return self

    # -- helpers
    def typeof(self, e):
        rec, self.record = self.record, False
        try:
            return self.expr(e)
        finally:
            self.record = rec

    def targets(self, node, kinds=("call", "dunder", "getter", "setter", "ctor", "cha")):
        out = []
        for kind, tg in self.by_node.get(id(node), []):
            if kind in kinds and isinstance(tg, list):
                out += tg
        return out

    def bind(self, tgt, t):
        if isinstance(tgt, ast.Name):
            old = self.env.get(tgt.id, UNK)
            if old == UNK or old == NONE:
                self.env[tgt.id] = t
        elif isinstance(tgt, (ast.Tuple, ast.List)):
            for i, e in enumerate(tgt.elts):
                if isinstance(t, tuple) and t and t[0] == "tup" and i < len(t[1]):
                    self.bind(e, t[1][i])
                else:
                    self.bind(e, elem(t))

    def note(self, node, kind, targets):
        if self.record:
            self.calls.append((node, kind, targets))

    def mangle(self, name):
        if name.startswith("__") and not name.endswith("__") and self.fn.cls:
            return f"_{self.fn.cls}{name}"
        return name

    # -- statements
    def stmt(self, st):
        if isinstance(st, ast.Assign):
            t = self.expr(st.value)
            for tg in st.targets:
                if isinstance(tg, ast.Attribute):
                    self.attr_store(tg)
                elif isinstance(tg, ast.Subscript):
                    self.expr(tg.value)
                    self.expr(tg.slice)
                self.bind(tg, t)
        elif isinstance(st, ast.AnnAssign):
            t = self.expr(st.value) if st.value is not None else UNK
            self.bind(st.target, t)
        elif isinstance(st, ast.AugAssign):
            self.expr(st.value)
            if isinstance(st.target, ast.Name):
                lt = self.env.get(st.target.id, UNK)
            else:
                lt = self.expr(st.target)
            self.dunder(st, lt, AUGOPS.get(type(st.op)))
        elif isinstance(st, ast.For):
            t = self.expr(st.iter)
            self.bind(st.target, elem(t))
            for b in st.body + st.orelse:
                self.stmt(b)
        elif isinstance(st, (ast.While, ast.If)):
            self.expr(st.test)
            for b in st.body + st.orelse:
                self.stmt(b)
        elif isinstance(st, ast.Try):
            for b in st.body + st.orelse + st.finalbody:
                self.stmt(b)
            for h in st.handlers:
                for b in h.body:
                    self.stmt(b)
        elif isinstance(st, ast.With):
            for it in st.items:
                self.expr(it.context_expr)
            for b in st.body:
                self.stmt(b)
        elif isinstance(st, ast.Return):
            if st.value is not None:
                t = self.expr(st.value)
                if self.record:
                    self.returned.append(t)
        elif isinstance(st, ast.Expr):
            t = self.expr(st.value)
            if self.record and isinstance(st.value, ast.Yield):
                self.yielded.append(t)
            if self.record and isinstance(st.value, ast.YieldFrom):
                self.yielded.append(elem(t))
        elif isinstance(st, (ast.FunctionDef, ast.AsyncFunctionDef)):
            # a closure: its body is typed in the environment of the enclosing function (its calls are calls of this
            # function as far as reachability goes); the name stands for a function returning what the body returns
            saved_env = dict(self.env)
            saved_ret, saved_y = self.returned, self.yielded
            self.returned, self.yielded = [], []
            a = st.args
            for p_ in a.posonlyargs + a.args + ([a.vararg] if a.vararg else []) + a.kwonlyargs:
                self.env[p_.arg] = self.t.ann_type(p_.annotation)
            rec = self.record
            self.record_inner = True
            for b in st.body:
                self.stmt(b)
            inner_r = [x for x in self.returned if x != UNK] if rec else []
            inner_y = [x for x in self.yielded if x != UNK] if rec else []
            if not rec:
                # the types are wanted in every pass: collect them without recording calls twice
                pass
            rt = self.t.ann_type(st.returns)
            if rt == UNK or UNK in str(rt):
                if inner_y and len({str(x) for x in inner_y}) == 1:
                    rt = ("seq", inner_y[0])
                elif inner_r and len({str(x) for x in inner_r}) == 1:
                    rt = inner_r[0]
            self.returned, self.yielded = saved_ret, saved_y
            keep = {k: v for k, v in self.env.items() if k not in {p_.arg for p_ in a.posonlyargs + a.args + a.kwonlyargs}}
            self.env = saved_env
            for k, v in keep.items():
                self.env.setdefault(k, v)
            self.env[st.name] = ("localfn", rt)
        elif isinstance(st, ast.Assert):
            self.expr(st.test)
        elif isinstance(st, ast.Raise):
            if st.exc:
                self.expr(st.exc)

    def attr_store(self, tg):
        rt = self.expr(tg.value)
        for c in self.t.classes_of(rt):
            f = self.m.lookup_setter(c, tg.attr)
            if f is not None:
                self.note(tg, "setter", [f])
                return

    def dunder(self, node, t, name):
        if name is None:
            return UNK
        cands = []
        for c in self.t.classes_of(t):
            cands += self.m.lookup(c, name)
        if cands:
            self.note(node, "dunder", cands)
            rts = {}
            for f in cands:
                rt = OVERRIDE_RET.get(f.qname, self.t.ret_type(f))
                rts[str(rt)] = rt
            rts.pop(UNK, None)
            return list(rts.values())[0] if len(rts) == 1 else UNK
        return UNK

    # -- expressions
    def expr(self, e):
        if e is None:
            return UNK
        m = getattr(self, "e_" + type(e).__name__, None)
        if m:
            return m(e)
        for c in ast.iter_child_nodes(e):
            if isinstance(c, ast.expr):
                self.expr(c)
        return UNK

    def e_NamedExpr(self, e):
        t = self.expr(e.value)
        self.bind(e.target, t)             # (name := value) binds like an assignment and has the value's type
        return t

    def e_Constant(self, e):
        if isinstance(e.value, bool):
            return BOOL
        if isinstance(e.value, (int, float)):
            return NUM
        if e.value is None:
            return NONE
        return UNK

    def e_Name(self, e):
        if e.id in self.env:
            return self.env[e.id]
        if e.id in self.m.classes:
            return ("type", e.id)
        if e.id in self.m.modfuncs:
            return ("func", e.id)
        return UNK

    def e_Attribute(self, e):
        rt = self.expr(e.value)
        name = self.mangle(e.attr)
        cs = self.t.classes_of(rt)
        if e.attr == "__class__" and cs:
            return ("type", cs[0])
        if is_type(rt):
            return ("bound", rt[1], e.attr, "cls")
        res = []
        for c in cs:
            fns = self.m.lookup(c, e.attr)
            props = [f for f in fns if f.kind == "getter"]
            if props:
                self.note(e, "getter", props)
                for f in props:
                    t = self.t.ret_type(f)
                    if t != UNK:
                        res.append(t)
            elif fns:
                return ("bound", c, e.attr, "inst")
            else:
                for k in [c] + self.m.mro(c)[1:] + self.m.subclasses(c):
                    if (k, name) in FIELD_TYPES:
                        res.append(FIELD_TYPES[(k, name)])
                    elif (k, name) in self.t.derived_fields():
                        res.append(self.t.derived_fields()[(k, name)])
        if res:
            return join_types(res)
        if rt == EXT:
            return EXT
        return ("attr?", e.attr) if rt == UNK else UNK

    def e_Subscript(self, e):
        t = self.expr(e.value)
        self.expr(e.slice)
        if isinstance(e.slice, ast.Slice):
            return t
        if t == "Point2D":
            self.dunder(e, t, "__getitem__")
            return NUM
        if isinstance(t, tuple) and t and t[0] == "tup" and isinstance(e.slice, ast.Constant) \
                and isinstance(e.slice.value, int) and -len(t[1]) <= e.slice.value < len(t[1]):
            return t[1][e.slice.value]
        return elem(t)

    def e_Slice(self, e):
        for x in (e.lower, e.upper, e.step):
            self.expr(x)
        return UNK

    def e_Tuple(self, e):
        return ("tup", tuple(self.expr(x) for x in e.elts))

    e_List = e_Tuple

    def comp(self, e):
        for g in e.generators:
            t = self.expr(g.iter)
            self.bind(g.target, elem(t))
            for c in g.ifs:
                self.expr(c)

    def e_ListComp(self, e):
        self.comp(e)
        return ("seq", self.expr(e.elt))

    e_GeneratorExp = e_ListComp
    e_SetComp = e_ListComp

    def e_IfExp(self, e):
        self.expr(e.test)
        a = self.expr(e.body)
        b = self.expr(e.orelse)
        return a if a not in (UNK, NONE) else b

    def e_BoolOp(self, e):
        for v in e.values:
            self.expr(v)
        return BOOL

    def e_UnaryOp(self, e):
        t = self.expr(e.operand)
        nm = {ast.Invert: "__invert__", ast.USub: "__neg__"}.get(type(e.op))
        if nm:
            r = self.dunder(e, t, nm)
            return r if r != UNK else t
        return BOOL if isinstance(e.op, ast.Not) else t

    def e_BinOp(self, e):
        l = self.expr(e.left)
        r = self.expr(e.right)
        nm = BINOPS.get(type(e.op))
        if self.t.classes_of(l):
            rr = self.dunder(e, l, nm)
            return rr if rr != UNK else l
        if self.t.classes_of(r):
            rr = self.dunder(e, r, ROPS.get(nm))
            return rr if rr != UNK else r
        if l == NUM and r == NUM:
            return NUM
        if isinstance(l, tuple) and l and l[0] in ("seq", "tup") and isinstance(e.op, (ast.Add, ast.Mult)):
            if l[0] == "seq":
                return l
            return ("seq", elem(l))
        return UNK

    def e_Compare(self, e):
        l = self.expr(e.left)
        for op, c in zip(e.ops, e.comparators):
            r = self.expr(c)
            if isinstance(op, (ast.In, ast.NotIn)):
                self.dunder(e, r, "__contains__")
            elif isinstance(op, (ast.Eq, ast.NotEq)):
                if self.t.classes_of(l):
                    self.dunder(e, l, "__eq__")
                elif self.t.classes_of(r):
                    self.dunder(e, r, "__eq__")
            l = r
        return BOOL

    def e_Lambda(self, e):
        saved = dict(self.env)
        a = e.args
        for p_ in a.posonlyargs + a.args + ([a.vararg] if a.vararg else []) + a.kwonlyargs:
            self.env[p_.arg] = UNK
        rt = self.expr(e.body)
        self.env = saved
        return ("localfn", rt)

    def e_Yield(self, e):
        return self.expr(e.value) if e.value is not None else NONE

    def e_YieldFrom(self, e):
        return self.expr(e.value)

    def e_JoinedStr(self, e):
        for v in e.values:
            if isinstance(v, ast.FormattedValue):
                self.expr(v.value)
        return UNK

    def ctor_targets(self, cname):
        return (self.m.lookup(cname, "__init__", virtual=False)
                + self.m.lookup(cname, "__new__", virtual=False))

    def e_Call(self, e):
        M = self.m
        argt = [self.expr(a) for a in e.args]
        for k in e.keywords:
            self.expr(k.value)
        f = e.func
        if isinstance(f, ast.Name):
            n = f.id
            if n in self.env and n not in M.classes and n not in M.modfuncs:
                t = self.env[n]
                if is_type(t):
                    self.note(e, "ctor", self.ctor_targets(t[1]))
                    return t[1]
                if isinstance(t, tuple) and t and t[0] == "bound":      # local alias of a method: f = Cls.helper; f(x)
                    fns = M.lookup(t[1], t[2])
                    if fns:
                        self.note(e, "call", fns)
                        rts = [OVERRIDE_RET.get(fn.qname, self.t.ret_type(fn)) for fn in fns]
                        rts = [x for x in rts if x != UNK]
                        return rts[0] if rts else UNK
                if isinstance(t, tuple) and len(t) == 2 and t[0] == "localfn":
                    self.note(e, "builtin", "closure")
                    return t[1]
                if isinstance(t, tuple) and t and t[0] == "func" and t[1] in M.modfuncs:
                    fn = M.modfuncs[t[1]]
                    self.note(e, "call", [fn])
                    return OVERRIDE_RET.get(fn.qname, self.t.ret_type(fn))
                if self.t.classes_of(t):
                    r = self.dunder(e, t, "__call__")
                    a0 = argt[0] if argt else UNK
                    if r == "Point2D" and isinstance(a0, tuple) and a0 and a0[0] in ("seq", "tup"):
                        r = ("seq", r)
                    return r
            if n in M.classes:
                self.note(e, "ctor", self.ctor_targets(n))
                return n
            if n in M.modfuncs:
                fn = M.modfuncs[n]
                self.note(e, "call", [fn])
                return OVERRIDE_RET.get(fn.qname, self.t.ret_type(fn))
            a0 = argt[0] if argt else UNK
            if n in EXT_ROOTS and n != "Fraction":
                self.note(e, "external", n)
                return EXT
            if n == "copy":
                if self.t.classes_of(a0):
                    self.dunder(e, a0, "__copy__")
                else:
                    self.note(e, "unresolved", "copy(?)")
                return a0
            if n in ("float", "abs", "bool"):
                r = UNK
                if self.t.classes_of(a0):
                    r = self.dunder(e, a0, {"float": "__float__", "abs": "__abs__", "bool": "__bool__"}[n])
                self.note(e, "builtin", n)
                if n == "abs" and r not in (UNK, NUM) and self.t.classes_of(r):
                    return r
                return NUM if n != "bool" else BOOL
            if n in ("tuple", "list", "sorted", "reversed", "set"):
                self.note(e, "builtin", n)
                if a0 == "Point2D":
                    self.dunder(e, a0, "__iter__")
                return ("seq", elem(a0)) if argt else ("seq", UNK)
            if n == "enumerate":
                self.note(e, "builtin", n)
                return ("seq", ("tup", (NUM, elem(a0))))
            if n == "zip":
                self.note(e, "builtin", n)
                return ("seq", ("tup", tuple(elem(a) for a in argt)))
            if n == "map":
                self.note(e, "builtin", n)
                a0n = e.args[0]
                if isinstance(a0n, ast.Name) and a0n.id in M.classes:
                    self.note(e, "ctor", self.ctor_targets(a0n.id))
                    return ("seq", a0n.id)
                if isinstance(a0n, ast.Name) and a0n.id in ("float", "abs"):
                    if len(argt) > 1 and self.t.classes_of(elem(argt[1])):
                        self.dunder(e, elem(argt[1]), "__" + a0n.id + "__")
                    return ("seq", NUM)
                return ("seq", UNK)
            if n in ("len", "range", "isinstance", "min", "max", "sum", "round", "int", "id",
                     "iter", "str", "getattr", "super", "type", "Fraction", "print", "hash",
                     "ValueError", "TypeError", "NotImplementedError", "any", "all", "dict",
                     "AssertionError", "RuntimeError", "next", "divmod", "pow", "repr", "callable"):
                self.note(e, "builtin", n)
                if n in ("len", "min", "max", "sum", "round", "int", "id", "Fraction"):
                    return NUM
                if n in ("isinstance", "any", "all"):
                    return BOOL
                return UNK
            self.note(e, "unresolved", ast.unparse(f))
            return UNK
        if isinstance(f, ast.Attribute):
            ft = self.expr(f)
            if isinstance(ft, tuple) and ft and ft[0] == "bound":
                _, c, name, how = ft
                fns = M.lookup(c, name)
                if fns:
                    self.note(e, "call", fns)
                    rts = [OVERRIDE_RET.get(fn.qname, self.t.ret_type(fn)) for fn in fns]
                    rts = [t for t in rts if t != UNK]
                    return rts[0] if rts else UNK
            if is_type(ft):   # x.__class__(...)
                self.note(e, "ctor", self.ctor_targets(ft[1]))
                return ft[1]
            if isinstance(f.value, ast.Call) and isinstance(f.value.func, ast.Name) and f.value.func.id == "super":
                for k in M.mro(self.fn.cls)[1:]:
                    if f.attr in M.methods[k]:
                        self.note(e, "call", [M.methods[k][f.attr]])
                        return UNK
                self.note(e, "external", "object." + f.attr)
                return UNK
            base = ast.unparse(f.value)
            root = base.split(".")[0].split("(")[0]
            if root in EXT_ROOTS:
                self.note(e, "external", ast.unparse(f))
                return NUM if root in ("math", "fractions") else EXT
            rt = self.typeof(f.value)
            if rt == EXT:
                self.note(e, "external", ast.unparse(f))
                return EXT
            if (isinstance(rt, tuple) and rt and rt[0] in ("seq", "tup")) or rt == NUM or f.attr in (
                    "append", "pop", "insert", "remove", "add", "index", "items", "extend",
                    "limit_denominator", "numerator", "get_figure", "scatter", "add_patch",
                    "set_facecolor", "gca", "T", "keys", "values", "count", "sort", "get"):
                self.note(e, "builtin", "." + f.attr)
                return UNK
            cands = [fn for c in M.classes for nm, fn in M.methods[c].items() if nm == f.attr]
            if cands:
                self.note(e, "cha", cands)
                return UNK
            self.note(e, "unresolved", ast.unparse(f))
            return UNK
        if isinstance(f, ast.Call) and isinstance(f.func, ast.Name) and f.func.id == "getattr" and len(f.args) >= 2:
            # getattr(obj, "name")(...) / getattr(obj, method)(...) with `method` a parameter that only ever receives
            # string literals: a call of those methods on obj
            ot = self.expr(f.args[0])
            a1 = f.args[1]
            names = None
            if isinstance(a1, ast.Constant) and isinstance(a1.value, str):
                names = {a1.value}
            elif isinstance(a1, ast.Name) and a1.id in self.fn.params:
                names = self.t.param_string_constants().get((self.fn.qname, a1.id))
            fns = []
            for c in self.t.classes_of(ot):
                for nm in sorted(names or ()):
                    fns += [x for x in M.lookup(c, nm) if x.kind != "getter"]
            if fns:
                self.note(e, "call", fns)
                rts = [OVERRIDE_RET.get(x.qname, self.t.ann_type(x.node.returns)) for x in fns]
                rts = [t for t in rts if t != UNK]
                return rts[0] if rts else UNK
            self.note(e, "unresolved", ast.unparse(f))
            return UNK
        if isinstance(f, ast.Call):
            self.expr(f)
            self.note(e, "builtin", "call-of-call")
            return UNK
        self.note(e, "unresolved", ast.unparse(f))
        return UNK


# ---------------------------------------------------------------------------
# Engine G

class CallGraph:
    def __init__(self, model, typer):
        self.m = model
        self.t = typer
        self.edges = collections.defaultdict(dict)   # caller q -> callee q -> first node
        self.stats = collections.Counter()
        self.unresolved = []
        self.cha = []
        for q, fn in model.funcs.items():
            inf = typer.of(fn)
            for node, kind, tg in inf.calls:
                self.stats[kind] += 1
                if kind == "unresolved":
                    self.unresolved.append((q, getattr(node, "lineno", 0), tg))
                if kind == "cha":
                    self.cha.append((q, getattr(node, "lineno", 0), ast.unparse(node.func)))
                if isinstance(tg, list):
                    for callee in tg:
                        self.edges[q].setdefault(callee.qname, node)

    def callees(self, q):
        return self.edges.get(q, {})

    def reach(self, start, stop=lambda q: False):
        """all functions reachable from `start` (list of qnames) with a parent
        map giving one witnessing path."""
        parent = {s: None for s in start}
        work = list(start)
        while work:
            q = work.pop()
            if stop(q):
                continue
            for c in self.edges.get(q, {}):
                if c not in parent:
                    parent[c] = q
                    work.append(c)
        return parent

    @staticmethod
    def path(parent, q):
        out = []
        while q is not None:
            out.append(q)
            q = parent[q]
        return list(reversed(out))

    def census(self):
        resolved = sum(self.stats[k] for k in ("call", "dunder", "getter", "setter", "ctor"))
        return {"resolved_repo_edges": resolved, "external_calls": self.stats["external"],
                "builtin_calls": self.stats["builtin"], "name_based_fallbacks": self.stats["cha"],
                "unresolved": self.stats["unresolved"]}
