"""Tiny exact polynomial algebra over named atoms (used for linear forms of the
point maps, Green-formula exponents, shoelace areas of literal vertex tables).
A polynomial is a dict {monomial: Fraction}, a monomial a sorted tuple of atom
names (with repetition)."""
from fractions import Fraction


def const(c):
    c = Fraction(c)
    return {(): c} if c else {}


def atom(a):
    return {(a,): Fraction(1)}


def add(a, b, sign=1):
    r = dict(a)
    for m, c in b.items():
        r[m] = r.get(m, 0) + sign * c
        if r[m] == 0:
            del r[m]
    return r


def sub(a, b):
    return add(a, b, -1)


def mul(a, b):
    r = {}
    for m1, c1 in a.items():
        for m2, c2 in b.items():
            m = tuple(sorted(m1 + m2))
            r[m] = r.get(m, 0) + c1 * c2
            if r[m] == 0:
                del r[m]
    return r


def neg(a):
    return {m: -c for m, c in a.items()}


def scale(a, c):
    c = Fraction(c)
    return {m: v * c for m, v in a.items()} if c else {}


def is_const(a):
    return all(m == () for m in a)


def value(a):
    return a.get((), Fraction(0))


def coef(p, at):
    """coefficient polynomial of atom `at` (terms linear in it)"""
    return {tuple(x for i, x in enumerate(m) if i != m.index(at)): c
            for m, c in p.items() if m.count(at) == 1}


def free_of(p, at):
    return {m: c for m, c in p.items() if at not in m}


def degree_in(p, at):
    return max((m.count(at) for m in p), default=0)


def show(p):
    if not p:
        return "0"
    out = []
    for m, c in sorted(p.items()):
        if m:
            out.append((f"{c}*" if c != 1 else "") + "*".join(m))
        else:
            out.append(str(c))
    return " + ".join(out)
