"""Interprocedural use of engine F: interpret repository functions on abstract
stand-in objects (tokens with hand-made attribute tables).  Calls that resolve
to a function of an allow-list are interpreted by entering its body; all other
calls must be answered by the rule's hook, otherwise the run is Undecided."""
from __future__ import annotations

import ast
from fractions import Fraction

from .finite import Ev, Undecided, _Ret
from . import pat

U = ast.unparse


class Obj:
    """abstract stand-in object: attributes are given explicitly"""

    def __init__(self, name, **attrs):
        self.__dict__["_name"] = name
        self.__dict__.update(attrs)

    def __repr__(self):
        return self._name

    def __hash__(self):
        return hash(self._name)

    def __eq__(self, o):
        return self is o


PURE_MATH = {"math.isclose", "math.floor", "math.ceil", "math.fabs", "math.hypot", "math.copysign", "math.trunc"}
EXTRA_GLOBALS = {}
SENTINELS = {}          # module-level `NAME = object()`: one stand-in per name     # module-level names of the analysed module bound to stand-ins for one abstract run


class StandIn:
    """base class of hand-written stand-in objects whose own methods may be called by the interpreted code"""


class ExtFn(StandIn):
    """a function of a third-party module used as a value (e.g. `map(np.prod, ...)`)"""

    def __init__(self, runner, name):
        self._runner, self._name = runner, name

    def __getattr__(self, attr):
        if attr.startswith("_"):
            raise AttributeError(attr)
        from .pat import CONSTS
        full = self._name + "." + attr
        if full in CONSTS:
            return CONSTS[full]
        return ExtFn(self._runner, full)

    def __call__(self, *a, **k):
        impl = self._runner.ext.get(self._name)
        if impl is None and self._name in PURE_MATH and all(isinstance(x, (int, float, Fraction)) for x in a) \
                and all(isinstance(x, (int, float, Fraction)) for x in k.values()):
            import math
            return getattr(math, self._name.split(".")[1])(*a, **k)       # a pure function of plain numbers
        if impl is None:
            raise Undecided("external function " + self._name)
        return impl(*a, **k)


def isinstance_names(call, args):
    """class names tested by an isinstance(x, C) call: from the evaluated second argument when it is a class value (or a
    tuple of them, e.g. a loop variable over a dispatch table), otherwise from the source"""
    def names_of(v):
        if isinstance(v, Obj) and str(v).startswith("class:"):
            return [str(v)[6:]]
        if isinstance(v, type):
            return [v.__name__]
        if isinstance(v, ExtFn):
            return [v._name.split(".")[-1]]                 # fractions.Fraction, numbers.Real ...
        if isinstance(v, (tuple, list)):
            out = []
            for x in v:
                n = names_of(x)
                if n is None:
                    return None
                out += n
            return out
        return None
    if len(args) > 1:
        n = names_of(args[1])
        if n is not None:
            return n
    c = call.args[1]

    def src_name(e):
        return e.id if isinstance(e, ast.Name) else e.attr if isinstance(e, ast.Attribute) else None
    if isinstance(c, (ast.Name, ast.Attribute)):
        return [src_name(c)]
    if isinstance(c, ast.Tuple):
        return [src_name(e) for e in c.elts if src_name(e) is not None]
    return []


class ObjMethod(StandIn):
    _ev_callable = True

    """`obj.method` read as a value on an abstract object (dispatch tables `{Cls: self.method}`): calling it is
    answered by the rule's hook exactly like the direct call `obj.method(...)`"""

    def __init__(self, runner, obj, name):
        self._runner, self._obj, self._name = runner, obj, name

    def __repr__(self):
        return f"{self._obj}.{self._name}"

    def __call__(self, *args, **kwargs):
        rn = self._runner
        node = ast.Call(func=ast.Attribute(value=ast.Name(id="self", ctx=ast.Load()), attr=self._name, ctx=ast.Load()),
                        args=[], keywords=[])
        if rn.user_hook:
            r = rn.user_hook(rn, None, node, self._name, self._obj, list(args), kwargs)
            if r is not NotImplemented:
                return r
        # a helper method defined by exactly one repository class: interpret its body on the stand-in receiver
        cands = [ms[self._name] for ms in rn.ctx.model.methods.values()
                 if self._name in ms and ms[self._name].kind == "method"]
        if len(cands) == 1 and rn.depth < 6:
            rn.depth += 1
            try:
                return rn.call_fn(cands[0], [self._obj] + list(args), kwargs)
            finally:
                rn.depth -= 1
        raise Undecided(f"call of {self._obj}.{self._name} through a method value")


class RepoFnValue(StandIn):
    _ev_callable = True

    """a function of the repository used as a value (`f = IntegratePlanar.vertical; f(x)`): calling it is answered
    exactly like the direct call `IntegratePlanar.vertical(x)` (rule hook first, then the function's body)"""

    def __init__(self, runner, owner, fn):
        self._runner, self._owner, self._fn = runner, owner, fn

    def __repr__(self):
        return "fn:" + self._fn.qname

    def __call__(self, *args, **kwargs):
        rn, fn = self._runner, self._fn
        node = ast.Call(func=ast.Attribute(value=ast.Name(id=fn.cls or "?", ctx=ast.Load()), attr=fn.name, ctx=ast.Load()),
                        args=[], keywords=[])
        if rn.user_hook:
            r = rn.user_hook(rn, None, node, fn.name, self._owner, list(args), kwargs)
            if r is not NotImplemented:
                return r
        if fn.qname in rn.enter or rn.depth < 6:
            rn.depth += 1
            try:
                return rn.call_fn(fn, list(args), kwargs)
            finally:
                rn.depth -= 1
        raise Undecided("call of function value " + fn.qname)


class ClassValue(Obj):
    """a class of the repository used as a value (`map(Point2D, xs)`): calling it is answered like `Point2D(x)`"""

    def __init__(self, runner, cname):
        Obj.__init__(self, "class:" + cname)
        self.__dict__["_runner"], self.__dict__["_cname"] = runner, cname

    def __call__(self, *args, **kwargs):
        rn = self._runner
        node = ast.Call(func=ast.Name(id=self._cname, ctx=ast.Load()), args=[], keywords=[])
        if rn.user_hook:
            r = rn.user_hook(rn, None, node, self._cname, self, list(args), kwargs)
            if r is not NotImplemented:
                return r
        raise Undecided("constructor value " + self._cname)


class Runner:
    """runs functions of `model` abstractly.
    enter : set of qnames whose bodies are interpreted when called
    hook  : hook(runner, ev, call_node, callee_name, recv, args, kwargs) -> value | NotImplemented
    """

    def __init__(self, ctx, enter, hook, asserts=False, ext=None):
        self.ctx, self.enter, self.user_hook = ctx, set(enter), hook
        self.asserts = asserts
        self.ext = ext or {}
        self.depth = 0
        self.trace = []

    def call_fn(self, fn, args, kwargs=None):
        kwargs = kwargs or {}
        a = fn.node.args
        names = [p.arg for p in a.posonlyargs + a.args]
        if fn.kind in ("static", "func"):
            pass
        elif fn.kind == "class":
            args = [Obj("cls:" + fn.cls)] + list(args)
        elif fn.cls and args and isinstance(args[0], Obj) and not args[0]._name.startswith(("class:", "cls:")):
            # the class of a stand-in receiver, as far as the run tells it: the most derived class one of whose methods
            # was entered on it (class-level hooks and overridden helpers are looked up from there)
            M = self.ctx.model
            tag = args[0].__dict__.get("__cls__")
            if tag is None or (fn.cls in M.classes and tag in M.mro(fn.cls)[1:]):
                args[0].__dict__["__cls__"] = fn.cls
        # the module-level names the function can see: stand-ins given by the rule, repository classes, third-party modules
        # and the module's own constants (literals, exception classes, and expressions over those, in source order)
        genv = dict(EXTRA_GLOBALS)
        for cname in self.ctx.model.classes:
            genv.setdefault(cname, ClassValue(self, cname))
        for mod in ("np", "math", "pynurbs", "fractions"):
            genv.setdefault(mod, ExtFn(self, mod))
        modast = self.ctx.model.modules.get(fn.mod)
        for st in (modast.body if modast is not None else []):
            if isinstance(st, (ast.Assign, ast.AnnAssign)) and getattr(st, "value", None) is not None:
                tg = st.targets[0] if isinstance(st, ast.Assign) else st.target
                if isinstance(tg, ast.Name) and tg.id not in genv:
                    try:
                        genv[tg.id] = ast.literal_eval(st.value)       # module-level literal constants
                        continue
                    except (ValueError, TypeError, SyntaxError, MemoryError, RecursionError):
                        pass
                    import builtins
                    names_ = st.value.elts if isinstance(st.value, ast.Tuple) else [st.value]
                    excs = [getattr(builtins, n.id, None) for n in names_ if isinstance(n, ast.Name)]
                    if len(excs) == len(names_) and excs and all(isinstance(x, type) and issubclass(x, BaseException)
                                                                  for x in excs):
                        genv[tg.id] = tuple(excs) if isinstance(st.value, ast.Tuple) else excs[0]   # exception classes
                        continue
                    if not any(isinstance(x, (ast.Call, ast.Lambda, ast.Await, ast.Yield)) for x in ast.walk(st.value)):
                        try:                                            # `10 ** 9`, `{2: Path.CURVE3}`, `(int, Fraction)` ...
                            genv[tg.id] = Ev(dict(genv), attr_hook=self._attr).ev(st.value)
                        except Exception:      # noqa: BLE001 -- not a constant the interpreter can see
                            pass
        # module-level functions used as values (`sorted(xs, key=_first_item)`), and sentinels (`_NONE = object()`)
        for st in (modast.body if modast is not None else []):
            if isinstance(st, ast.FunctionDef) and st.name not in genv:
                target = self.ctx.model.funcs.get(f"{fn.mod}.{st.name}")
                if target is not None:
                    genv[st.name] = (lambda *aa, _t=target, **kk: self.call_fn(_t, list(aa), kk))
            elif isinstance(st, ast.Assign) and len(st.targets) == 1 and isinstance(st.targets[0], ast.Name) \
                    and st.targets[0].id not in genv and isinstance(st.value, ast.Call) \
                    and isinstance(st.value.func, ast.Name) and st.value.func.id == "object" and not st.value.args:
                genv[st.targets[0].id] = SENTINELS.setdefault((fn.mod, st.targets[0].id), Obj("sentinel:" + st.targets[0].id))
        env = {}
        defaults = list(a.defaults)
        for i, n in enumerate(names):
            if i < len(args):
                env[n] = args[i]
            elif n in kwargs:
                env[n] = kwargs[n]
            else:
                di = i - (len(names) - len(defaults))
                if di < 0:
                    raise Undecided(f"missing argument {n} of {fn.qname}")
                env[n] = Ev(dict(genv)).ev(defaults[di])
        if a.vararg is not None:
            env[a.vararg.arg] = tuple(args[len(names):])
        elif len(args) > len(names):
            raise Undecided(f"too many arguments for {fn.qname}")
        if a.kwarg is not None:
            known = set(names) | {p.arg for p in a.kwonlyargs}
            env[a.kwarg.arg] = {k: v for k, v in kwargs.items() if k not in known}
        for p, d in zip(a.kwonlyargs, a.kw_defaults):
            env[p.arg] = kwargs[p.arg] if p.arg in kwargs else (Ev(dict(genv)).ev(d) if d is not None else None)
        for k, v in genv.items():
            env.setdefault(k, v)
        ev = Ev(env, hook=lambda e, c, a, k: self._hook(fn, e, c, a, k), attr_hook=self._attr, asserts=self.asserts,
                store_hook=self._store)
        return ev.run(fn.node.body)

    def _store(self, ev, target, value):
        base = ev.ev(target.value)
        if isinstance(base, Obj):
            base.__dict__[target.attr] = value
        elif isinstance(base, StandIn):
            setattr(base, target.attr, value)
        else:
            raise Undecided("attribute store on " + U(target))

    def _attr(self, ev, node):
        base = ev.ev(node.value)
        if isinstance(base, Obj):
            if node.attr in base.__dict__:
                return base.__dict__[node.attr]
            if base._name.startswith("class:") and not isinstance(getattr(node, "ctx", None), ast.Store):
                m = self.ctx.model.methods.get(base._name[6:], {}).get(node.attr)
                if m is not None and m.kind in ("static", "class"):
                    return RepoFnValue(self, base, m)
                # a class-level constant (`Intersection.tol_norm = 1e-9`), read through the class or a base class
                M = self.ctx.model
                cname = base._name[6:]
                for k in ([cname] + M.mro(cname)[1:] if cname in M.classes else []):
                    if node.attr in M.class_consts.get(k, {}):
                        v = pat.const_value(M.class_consts[k][node.attr])
                        if v is not None:
                            return v
                        # a class-level container (`__caract_matrix = {}`): one object per run, so that what the code
                        # stores in it is seen by its later reads
                        state = self.__dict__.setdefault("_class_state", {})
                        if (k, node.attr) not in state:
                            try:
                                state[(k, node.attr)] = ast.literal_eval(M.class_consts[k][node.attr])
                            except (ValueError, TypeError, SyntaxError):
                                break
                        return state[(k, node.attr)]
            got = self._derived_attr(base, node.attr)
            if got is not NotImplemented:
                return got
            # a class-level attribute (a hook table, a constant) read through the instance
            M = self.ctx.model
            cname = base.__dict__.get("__cls__") or getattr(base, "kind", None)
            if isinstance(cname, str) and cname in M.classes and not isinstance(getattr(node, "ctx", None), ast.Store):
                for k in [cname] + M.mro(cname)[1:]:
                    if node.attr in M.class_consts.get(k, {}):
                        expr = M.class_consts[k][node.attr]
                        v = pat.const_value(expr)
                        if v is not None:
                            return v
                        try:
                            genv = {c: ClassValue(self, c) for c in M.classes}
                            return Ev(genv).ev(expr)
                        except Undecided:
                            break
            plain = node.attr
            if not base._name.startswith("class:") and any(
                    plain in ms and ms[plain].kind == "method" for ms in self.ctx.model.methods.values()):
                return ObjMethod(self, base, plain)          # a method of some repository class, read as a value
            raise Undecided(f"attribute {node.attr} of abstract object {base}")
        if isinstance(base, StandIn) and hasattr(base, node.attr):
            return getattr(base, node.attr)
        if isinstance(base, StandIn):
            got = self._derived_attr(base, node.attr)
            if got is not NotImplemented:
                return got
        if isinstance(base, StandIn) and not isinstance(getattr(node, "ctx", None), ast.Store) and any(
                node.attr in ms and ms[node.attr].kind == "method" for ms in self.ctx.model.methods.values()):
            return ObjMethod(self, base, node.attr)              # e.g. self.__contains_simple in a dispatch table
        if isinstance(base, tuple) and hasattr(base, node.attr):
            return getattr(base, node.attr)
        return NotImplemented

    def _derived_attr(self, base, name):
        """A stand-in is described by the public view of an object (`jordans=(curve,)`).  When the code reads a private
        field or a private property the stand-in does not carry, and a property the stand-in *does* carry is defined by
        the repository as a plain view of it -- `jordans` returning `(self._jordan,)`, `_jordan` returning
        `self.__jordancurve` -- the value is recovered through that definition (followed through up to three getters)."""
        have = dict(getattr(base, "__dict__", {}))
        for k in dir(type(base)):
            if not k.startswith("__") and k not in have:
                try:
                    v = getattr(base, k)
                except Exception:      # noqa: BLE001
                    continue
                if not callable(v):
                    have[k] = v
        M = self.ctx.model
        known = dict(have)
        for _ in range(3):
            grew = False
            for cname, ms in M.methods.items():
                for gname, g in ms.items():
                    if g.kind != "getter" or gname not in known:
                        continue
                    body = [st for st in g.node.body if not (isinstance(st, ast.Expr) and isinstance(st.value, ast.Constant))]
                    if len(body) != 1 or not isinstance(body[0], ast.Return) or body[0].value is None:
                        continue
                    e = body[0].value
                    selfn = g.params[0] if g.params else "self"
                    while isinstance(e, ast.Call) and isinstance(e.func, ast.Name) and e.func.id in ("tuple", "list") and len(e.args) == 1:
                        e = e.args[0]
                    val = known[gname]

                    def field(x):
                        if isinstance(x, ast.Attribute) and pat.is_name(x.value, selfn):
                            return x.attr
                        return None
                    if field(e) is not None and field(e) not in known:
                        known[field(e)] = val
                        grew = True
                    elif isinstance(e, (ast.Tuple, ast.List)) and len(e.elts) == 1 and field(e.elts[0]) is not None \
                            and field(e.elts[0]) not in known:
                        try:
                            vs = list(val)
                        except TypeError:
                            continue
                        if len(vs) == 1:
                            known[field(e.elts[0])] = vs[0]
                            grew = True
            if name in known:
                return known[name]
            if not grew:
                break
        # a private property of the repository read on a stand-in that carries its backing field: run the getter
        getters = [g for ms in M.methods.values() for gname, g in ms.items() if gname == name and g.kind == "getter"]
        kind = getattr(base, "kind", None)
        if kind is not None:
            mine = [g for g in getters if g.cls in M.mro(kind)] if kind in M.classes else []
            getters = mine or getters
        if len(getters) == 1 and name.startswith("_") and self.depth < 6:
            self.depth += 1
            try:
                return self.call_fn(getters[0], [base], {})
            except Undecided:
                return NotImplemented
            finally:
                self.depth -= 1
        return NotImplemented

    def _hook(self, fn, ev, call, args, kwargs):
        f = call.func
        # repo function by resolved target
        inf = self.ctx.typer.of(fn)
        tgs = [t for t in inf.targets(call) if t.qname in self.enter]
        recv = None
        name = None
        if isinstance(f, ast.Attribute):
            name = f.attr
            try:
                recv = ev.ev(f.value)
            except Undecided:
                recv = None
        elif isinstance(f, ast.Name):
            name = f.id
            if f.id in ev.env:
                recv = ev.env[f.id]
        # keyword arguments of a call to a resolved repository function are put in positional order, so that
        # `f(x, 0, 0, n)` and `f(x, expx=0, expy=0, nnodes=n)` look the same to the rules
        alltg = inf.targets(call, ("call",))
        if kwargs and len(alltg) == 1:
            t = alltg[0]
            pnames = [p.arg for p in t.node.args.posonlyargs + t.node.args.args]
            if t.kind in ("method", "getter", "setter", "class") and pnames:
                pnames = pnames[1:]
            args, kwargs = list(args), dict(kwargs)
            while len(args) < len(pnames) and pnames[len(args)] in kwargs:
                args.append(kwargs.pop(pnames[len(args)]))
        if self.user_hook:
            r = self.user_hook(self, ev, call, name, recv, args, kwargs)
            if r is not NotImplemented:
                return r
            # a third-party function called through a local alias (`bezier = pynurbs.GeneratorKnotVector.bezier`)
            if isinstance(f, ast.Name) and isinstance(recv, ExtFn):
                r = self.user_hook(self, ev, call, recv._name.split(".")[-1], None, args, kwargs)
                if r is not NotImplemented:
                    return r
            # a helper extracted under a private name (`_split_two_jordans` for `split_two_jordans`) plays the same role
            if isinstance(name, str) and name.startswith("_") and not name.endswith("__") and name.lstrip("_") != name:
                r = self.user_hook(self, ev, call, name.lstrip("_"), recv, args, kwargs)
                if r is not NotImplemented:
                    return r
        if isinstance(f, ast.Name) and f.id == "isinstance" and len(args) == 2 and not isinstance(args[0], (StandIn, Obj)):
            # a concrete Python value tested against classes named in the source (fractions.Fraction, numbers.Real ...)
            import decimal, fractions, numbers
            known = {"int": int, "float": float, "str": str, "bool": bool, "tuple": tuple, "list": list, "dict": dict,
                     "set": set, "bytes": bytes, "complex": complex, "Fraction": fractions.Fraction,
                     "Decimal": decimal.Decimal, "Real": numbers.Real, "Number": numbers.Number,
                     "Rational": numbers.Rational, "Integral": numbers.Integral, "Complex": numbers.Complex}
            names = isinstance_names(call, args)
            if names and all(n in known or n in self.ctx.model.classes for n in names):
                return any(isinstance(args[0], known[n]) for n in names if n in known)
        if isinstance(recv, StandIn) and isinstance(f, ast.Attribute) and hasattr(recv, f.attr):
            return getattr(recv, f.attr)(*args, **kwargs)
        if isinstance(recv, (StandIn, Obj)) and isinstance(f, ast.Attribute) and f.attr in ("__copy__", "__deepcopy__") \
                and not tgs and not hasattr(recv, f.attr):
            # x.__copy__() on a stand-in without its own copy method is copy(x), as the interpreter does for copy(x)
            import copy as _copy
            if self.user_hook:
                r = self.user_hook(self, ev, call, "copy" if f.attr == "__copy__" else "deepcopy", None, [recv], {})
                if r is not NotImplemented:
                    return r
            return _copy.copy(recv) if f.attr == "__copy__" else _copy.deepcopy(recv)
        if isinstance(recv, StandIn) and isinstance(f, ast.Name) and callable(recv):
            return recv(*args, **kwargs)
        if tgs:
            if len(tgs) > 1:
                raise Undecided(f"ambiguous callee for {U(call)[:40]}")
            t = tgs[0]
            if t.kind in ("method", "getter") and recv is not None:
                return self.call_fn(t, [recv] + args, kwargs)
            return self.call_fn(t, args, kwargs)
        if isinstance(f, ast.Name) and f.id == "Fraction":
            from fractions import Fraction
            return Fraction(*args, **kwargs)
        if isinstance(f, ast.Name) and f.id in ("copy", "deepcopy") and len(args) >= 1 and isinstance(args[0], StandIn):
            meth = "__copy__" if f.id == "copy" else "__deepcopy__"
            if hasattr(args[0], meth):
                return getattr(args[0], meth)(*args[1:])
        # a helper of the repository that the rule did not abstract: interpret its body too (bounded depth), so that
        # extracting a helper function does not make a rule inconclusive
        cands = [t for t in inf.targets(call, ("call",)) if t.kind in ("static", "func", "method", "class")]
        if isinstance(f, ast.Attribute) and isinstance(recv, Obj) and recv.__dict__.get("__cls__") in self.ctx.model.classes:
            M = self.ctx.model
            for k in [recv.__dict__["__cls__"]] + M.mro(recv.__dict__["__cls__"])[1:]:
                m = M.methods.get(k, {}).get(f.attr)
                if m is not None and m.kind in ("static", "method", "class"):
                    cands = [m]              # the override of the receiver's own class, not the declared type's
                    break
        if len(cands) == 1 and self.depth < 6:
            t = cands[0]
            self.depth += 1
            try:
                if t.kind == "method" and recv is not None:
                    return self.call_fn(t, [recv] + args, kwargs)
                if t.kind in ("static", "func", "class"):
                    return self.call_fn(t, args, kwargs)
            finally:
                self.depth -= 1
        return NotImplemented
