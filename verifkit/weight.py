"""R12.2: affine weight of point-valued expressions (1 = position, 0 =
displacement, 'C' = constant) at the arguments of inner / cross / abs / arctan2
and at coordinate comparisons.  A predicate that is fed a *position* (weight 1)
where a displacement is required depends on the choice of origin."""
from __future__ import annotations

import ast

from . import model as P

U = ast.unparse
REL = "relative tolerance measured against positions"
FILES = ("curve", "jordancurve", "shape")     # polygon.py holds the primitives themselves
UNK = ("other", None)


class WeightEngine:
    def __init__(self, ctx):
        self.ctx = ctx
        self.M = ctx.model
        self.T = ctx.typer
        self.findings = []
        self.sites = 0
        # weights of the point parameters of *private* helpers come from their call sites (a helper that receives
        # differences of points works on displacements); public functions receive positions
        self.param_w = {}
        # private helpers that are called with starred arguments (f(*sample)): the weights of their parameters cannot be
        # read off the call site
        self.opaque_calls = set()
        for q, fn in self.M.funcs.items():
            inf = self.T.of(fn)
            for c in ast.walk(fn.node):
                if isinstance(c, ast.Call) and any(isinstance(a, ast.Starred) for a in c.args):
                    for t in inf.targets(c, ("call",)):
                        self.opaque_calls.add(t.qname)
        self.settled = False
        for it in range(3):
            self.settled = it > 0            # after the first pass a point parameter without a recorded call site is unknown
            self.callsites = {}
            self.findings, self.sites = [], 0
            for q, fn in self.M.funcs.items():
                if fn.mod in FILES:
                    W(self, q).run()
                elif fn.mod == "polygon":
                    # the primitives work on positions by design; only a tolerance that is *relative to* positions is
                    # looked for there
                    nf, ns = len(self.findings), self.sites
                    try:
                        W(self, q).run()
                    except Exception:
                        pass
                    kept = [f for f in self.findings[nf:] if f[2] == REL]
                    self.findings[nf:] = kept
                    self.sites = ns + len(kept)
            new = {}
            for (q, pname), ws in self.callsites.items():
                ws = set(ws)
                new[(q, pname)] = 0 if ws == {0} else 1 if 1 in ws else None
            if new == self.param_w:
                break
            self.param_w = new

    @staticmethod
    def is_private(fn):
        from .known_names import is_new_helper
        if fn.name.startswith("__") and fn.name.endswith("__"):
            return False
        return fn.name.startswith("_") or is_new_helper(fn.name)     # a new helper is called from inside the package only


class W:
    def __init__(s, eng, q):
        s.eng = eng
        s.q = q; s.fn = eng.M.funcs[q]; s.inf = eng.T.of(s.fn); s.env = {}
        for name, t in s.inf.env.items():
            if t == "Point2D": s.env[name] = ("pt", 1)
            elif t in ("PlanarCurve", "BezierCurve"): s.env[name] = ("curve", 1)
            elif isinstance(t, tuple) and t[0] == "seq" and t[1] == "Point2D": s.env[name] = ("seq", ("pt", 1))
        s.env = {k: v for k, v in s.env.items() if k in [a.arg for a in s.fn.node.args.args]}
        if eng.is_private(s.fn):
            for k, v in list(s.env.items()):
                if v[0] == "pt" and (q, k) in eng.param_w:
                    s.env[k] = ("pt", eng.param_w[(q, k)])
                elif v[0] == "pt" and (q in eng.opaque_calls or eng.settled):
                    s.env[k] = ("pt", None)      # called with *args somewhere / no call site read: what it receives is not known
    def typ(s, e):
        try: return s.inf.typeof(e)
        except Exception: return P.UNK
    def run(s):
        for _ in range(2):
            s.final = False
            for st in s.fn.node.body: s.stmt(st)
        s.final = True
        for st in s.fn.node.body: s.stmt(st)
    def check(s, node, what, v):
        if not s.final: return
        s.eng.sites += 1
        if v[0] in ("pt", "num") and v[1] == 1:
            s.eng.findings.append((s.q, node.lineno, what, U(node)[:70]))
    def bind(s, t, v):
        if isinstance(t, ast.Name):
            if t.id not in s.env or s.env[t.id][1] is None: s.env[t.id] = v
        elif isinstance(t, (ast.Tuple, ast.List)):
            for i, e in enumerate(t.elts):
                if v[0] == "tup" and i < len(v[1]): s.bind(e, v[1][i])
                else: s.bind(e, s.elem(v))
    def elem(s, v):
        if v[0] == "seq": return v[1]
        if v[0] == "pt": return ("num", v[1])
        if v[0] == "enum": return ("tup", (UNK, s.elem(v[1])))
        if v[0] == "zip": return ("tup", tuple(s.elem(x) for x in v[1]))
        return UNK
    def stmt(s, st):
        if isinstance(st, ast.Assign):
            v = s.ev(st.value)
            for t in st.targets: s.bind(t, v)
        elif isinstance(st, ast.AugAssign): s.ev(st.value)
        elif isinstance(st, ast.For):
            s.bind(st.target, s.elem(s.ev(st.iter)))
            for b in st.body + st.orelse: s.stmt(b)
        elif isinstance(st, (ast.If, ast.While)):
            s.ev(st.test)
            for b in st.body + st.orelse: s.stmt(b)
        elif isinstance(st, ast.Try):
            for b in st.body + st.orelse + st.finalbody: s.stmt(b)
            for h in st.handlers:
                for b in h.body: s.stmt(b)
        elif isinstance(st, ast.Return):
            if st.value is not None: s.ev(st.value)
        elif isinstance(st, (ast.Expr,)): s.ev(st.value)
        elif isinstance(st, ast.Assert): s.ev(st.test)
    def ev(s, e):
        if e is None: return UNK
        if isinstance(e, ast.Constant): return ("num", "C") if isinstance(e.value, (int, float)) and not isinstance(e.value, bool) else UNK
        if isinstance(e, ast.Name):
            if e.id in s.env: return s.env[e.id]
            t = s.typ(e)
            return ("pt", 1) if t == "Point2D" else UNK
        if isinstance(e, ast.Attribute):
            b = s.ev(e.value)
            if e.attr == "ctrlpoints": return ("seq", ("pt", b[1] if b[0] == "curve" else 1))
            if e.attr == "vertices": return ("seq", ("pt", 1))
            if e.attr == "segments": return ("seq", ("curve", 1))
            if e.attr in ("lowpt", "toppt"): return ("pt", 1)
            if e.attr in ("dx", "dy"): return ("num", "C")
            return UNK
        if isinstance(e, ast.Subscript):
            b = s.ev(e.value); s.ev(e.slice)
            return b if isinstance(e.slice, ast.Slice) else s.elem(b)
        if isinstance(e, (ast.Tuple, ast.List)):
            vs = [s.ev(x) for x in e.elts]
            return ("tup", tuple(vs))
        if isinstance(e, (ast.ListComp, ast.GeneratorExp)):
            for g in e.generators: s.bind(g.target, s.elem(s.ev(g.iter)))
            return ("seq", s.ev(e.elt))
        if isinstance(e, ast.IfExp): s.ev(e.test); a = s.ev(e.body); b = s.ev(e.orelse); return a if a != UNK else b
        if isinstance(e, ast.BoolOp):
            for v in e.values: s.ev(v)
            return UNK
        if isinstance(e, ast.UnaryOp): return s.ev(e.operand)
        if isinstance(e, ast.BinOp):
            l, r = s.ev(e.left), s.ev(e.right)
            if l[0] in ("pt", "num") and r[0] in ("pt", "num") and l[0] == r[0] or {l[0], r[0]} == {"pt", "num"}:
                k = "pt" if "pt" in (l[0], r[0]) else "num"
                wl, wr = l[1], r[1]
                if isinstance(e.op, ast.Sub):
                    if s.final and len(l) > 2 and len(r) > 2 and wl == 1 and wr == 1:
                        # float(p) - float(q): the difference of two positions taken after each was rounded to a float
                        s.eng.sites += 1
                        s.eng.findings.append((s.q, e.lineno, "difference of two positions after separate float conversion", U(e)[:70]))
                    if wl == "C" or wr == "C": return (k, wl if wr == "C" else wr if wl == "C" else None)
                    return (k, wl - wr) if wl is not None and wr is not None else (k, None)
                if isinstance(e.op, ast.Add):
                    if wl == "C": return (k, wr)
                    if wr == "C": return (k, wl)
                    return (k, wl + wr) if wl is not None and wr is not None else (k, None)
                if isinstance(e.op, (ast.Mult, ast.Div)):
                    if wl == "C": return (k, None if wr not in (0, "C") else wr)
                    if wr == "C": return (k, None if wl not in (0, "C") else wl)
                    return (k, 0 if wl == 0 and wr == 0 else None)
            return UNK
        if isinstance(e, ast.Compare):
            l = s.ev(e.left)
            for op, c in zip(e.ops, e.comparators):
                r = s.ev(c)
                if isinstance(op, (ast.Lt, ast.LtE, ast.Gt, ast.GtE)) and l[0] == "num" and r[0] == "num" and s.final:
                    s.eng.sites += 1
                    wl, wr = l[1], r[1]
                    if (wl == 1 and wr in (0, "C")) or (wr == 1 and wl in (0, "C")):
                        s.eng.findings.append((s.q, e.lineno, "compare position with displacement/constant", U(e)[:70]))
                l = r
            return UNK
        if isinstance(e, ast.Call):
            f = e.func; args = [s.ev(a) for a in e.args]
            kws = {k.arg: s.ev(k.value) for k in e.keywords}
            if s.final:
                for t in s.inf.targets(e, ("call",)):
                    if s.eng.is_private(t):
                        ps = [a.arg for a in t.node.args.posonlyargs + t.node.args.args]
                        if t.kind in ("method", "getter", "setter", "class") and ps: ps = ps[1:]
                        for pn, av in list(zip(ps, args)) + [(k, v) for k, v in kws.items() if k in ps]:
                            # an element of what a curve returned for an unknown argument reads as a coordinate
                            if av[0] in ("pt", "num") and (len(av) < 3): s.eng.callsites.setdefault((t.qname, pn), []).append(av[1])
            name = f.id if isinstance(f, ast.Name) else f.attr if isinstance(f, ast.Attribute) else None
            if isinstance(f, ast.Name):
                if name == "abs":
                    if args and args[0][0] == "pt": s.check(e, "abs of a position", args[0])
                    return ("num", 0) if args and args[0][0] == "pt" else args[0] if args else UNK
                if name == "float":
                    if args and args[0][0] == "num":
                        return args[0][:2] + ("f",) if args[0][1] == 1 else args[0]   # a position coordinate rounded to a float
                    return ("num", 0)
                if name in ("tuple", "list", "sorted", "reversed"): return args[0] if args else UNK
                if name == "enumerate": return ("enum", args[0])
                if name == "zip": return ("zip", tuple(args))
                if name in ("min", "max"): return args[0] if len(args) > 1 else s.elem(args[0]) if args else UNK
                if name == "Point2D": return ("pt", 1)
                if name in s.env and s.env[name][0] == "curve":
                    w = s.env[name][1]
                    return ("seq", ("pt", w)) if args and args[0][0] in ("seq", "tup") else ("pt", w)
                return UNK
            if isinstance(f, ast.Attribute):
                recv = s.ev(f.value)
                if name in ("inner", "cross"):
                    s.check(e, f"{name}: receiver is a position", recv)
                    if args: s.check(e, f"{name}: argument is a position", args[0])
                    return ("num", 0)
                if name == "derivate": return ("curve", 0)
                if name == "eval": return ("seq", ("pt", recv[1] if recv[0] == "curve" else 1))
                if U(f) in ("np.dot", "np.inner", "np.vdot", "np.tensordot") and len(args) >= 2:
                    def w(v):
                        return v[1] if v[0] == "pt" else (v[1][1] if v[0] == "seq" and isinstance(v[1], tuple) and v[1][0] == "pt" else None)
                    if s.final and w(args[0]) == 1 and w(args[1]) == 1:
                        s.eng.sites += 1
                        s.eng.findings.append((s.q, e.lineno, "dot product of two positions", U(e)[:70]))
                    return ("num", None)
                if U(f) in ("math.isclose", "np.isclose", "np.allclose") and len(args) >= 2:
                    # |a - b| <= max(rel_tol * max(|a|, |b|), abs_tol): the relative part is measured against the
                    # operands themselves; for two positions it grows with the distance from the origin
                    rel = next((k.value for k in e.keywords if k.arg in ("rel_tol", "rtol")), None)
                    if rel is None and len(e.args) > 2 and U(f) != "math.isclose": rel = e.args[2]
                    zero = isinstance(rel, ast.Constant) and rel.value == 0
                    def w1(v):
                        return v[0] in ("pt", "num") and v[1] == 1 or (v[0] == "seq" and isinstance(v[1], tuple) and v[1][0] in ("pt", "num") and v[1][1] == 1)
                    if s.final:
                        s.eng.sites += 1
                        if not zero and (w1(args[0]) or w1(args[1])):
                            s.eng.findings.append((s.q, e.lineno, REL, U(e)[:70]))
                    return UNK
                if U(f) == "np.arctan2":
                    for a in args: s.check(e, "arctan2 of a position coordinate", a)
                    return ("num", 0)
                if name == "box": return ("box", 1)
                return UNK
        return UNK



def weights(ctx):
    return ctx.engine("weight", WeightEngine)
