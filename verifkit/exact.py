"""Engine X: exactness taint on the rational / straight-segment paths (C13).

Abstract numeric kind of an expression
   Z zero literal, I int, Q Fraction, S "same as the input data" (exact when the
   input is), F float, A approximated rational (limit_denominator applied),
   B boolean / None / not a number.
Sources of F: float literals in arithmetic, float(), math.* / np.* transcendental
or float-dtype constructors, int/int true division.  Source of A:
x.limit_denominator(n).  Sinks: stored coordinates / control points (attribute
stores, constructor arguments of the geometric classes), returned values.
Predicates (comparisons) may use floats.  A discarded validation call
`float(x)` is not a source.
"""
from __future__ import annotations

import ast
import collections

from . import pat

U = ast.unparse

# Frozen table: the functions that lie on the rational / straight-segment path (entry set; the callee closure is
# added automatically).  Each must exist (a vanished anchor makes the run inconclusive).
EXACT = [
    "polygon.Point2D.__init__", "polygon.Point2D.move", "polygon.Point2D.scale", "polygon.Point2D.inner",
    "polygon.Point2D.cross", "polygon.Point2D.__imul__", "polygon.Point2D.__itruediv__", "polygon.Point2D.__deepcopy__",
    "polygon.Point2D.__add__", "polygon.Point2D.__sub__", "polygon.Point2D.__mul__", "polygon.Point2D.__truediv__",
    "polygon.Point2D.__neg__", "polygon.Point2D.__iadd__", "polygon.Point2D.__isub__", "polygon.Point2D.__rmul__",
    "polygon.Box.__or__", "polygon.Box.__and__",
    "curve.Math.comb", "curve.Math.horner_method", "curve.Math.bezier_caract_matrix", "curve.Math.closed_linspace",
    "curve.Math.open_linspace",
    "curve.BezierCurve.eval", "curve.BezierCurve.derivate", "curve.BezierCurve.split", "curve.PlanarCurve.eval",
    "curve.PlanarCurve.derivate", "curve.PlanarCurve.box", "curve.PlanarCurve.split", "curve.PlanarCurve.invert",
    "curve.PlanarCurve.__deepcopy__", "curve.PlanarCurve.__and__",
    "curve.Intersection.lines", "curve.Derivate.non_rational_bezier", "curve.IntegratePlanar.vertical",
    "curve.IntegratePlanar.area",
    "jordancurve.IntegrateJordan.vertical", "jordancurve.IntegrateJordan.area", "jordancurve.JordanCurve.split",
    "jordancurve.JordanCurve.__split_segment", "jordancurve.JordanCurve.points", "jordancurve.JordanCurve.from_vertices",
    "jordancurve.JordanCurve.from_segments", "jordancurve.JordanCurve.from_ctrlpoints",
    "jordancurve.JordanCurve.__deepcopy__", "jordancurve.JordanCurve.invert", "jordancurve.JordanCurve.move",
    "jordancurve.JordanCurve.scale", "jordancurve.JordanCurve.box", "jordancurve.JordanCurve.__intersection",
    "jordancurve.JordanCurve.intersection", "jordancurve.JordanCurve.segments:set",
    "shape.IntegrateShape.polynomial", "shape.IntegrateShape.area", "shape.FollowPath.split_two_jordans",
    "shape.FollowPath.indexs_to_jordan", "shape.FollowPath.midpoints_one_shape", "shape.SimpleShape._contains_jordan",
    "shape.DefinedShape.move", "shape.DefinedShape.scale",
    "primitive.Primitive.square", "primitive.Primitive.triangle", "primitive.Primitive.polygon",
]

# Float by nature / curved-only / predicates: not followed into when building the callee closure (one reason each).
NONEXACT = {
    "jordancurve.JordanCurve.__float__": "signed length (square roots)",
    "jordancurve.IntegrateJordan.lenght": "arc length", "jordancurve.IntegrateJordan.polynomial": "arc-length integral",
    "curve.IntegratePlanar.lenght": "arc length", "curve.IntegratePlanar.polynomial": "arc-length integral",
    "curve.IntegratePlanar.winding_number": "angles", "curve.IntegratePlanar.winding_number_linear": "angles",
    "jordancurve.IntegrateJordan.winding_number": "angles, rounded to an integer",
    "polygon.Point2D.__abs__": "euclidean norm", "polygon.Point2D.rotate": "trigonometry",
    "jordancurve.JordanCurve.rotate": "trigonometry", "shape.DefinedShape.rotate": "trigonometry",
    "curve.Intersection.bezier_and_bezier": "Newton iteration for curved pieces (documented cap of 10000 on parameters)",
    "curve.Intersection.filter_distance": "curved path", "curve.Intersection.filter_parameters": "curved path",
    "curve.Projection.point_on_curve": "predicate support (Newton)", "curve.Projection.newton_iteration": "predicate support",
    "curve.BezierCurve.clean": "degree reduction: least squares, no-op on straight segments",
    "curve.PlanarCurve.clean": "degree reduction: least squares, no-op on straight segments",
    "curve.Operations.degree_decrease": "least-squares matrices",
    "curve.PlanarCurve.__or__": "uniting helper of clean()", "curve.BezierCurve.__or__": "dead code",
    "jordancurve.JordanCurve.clean": "degree reduction / uniting",
    "primitive.Primitive.regular_polygon": "numpy trigonometry (documented float)", "primitive.Primitive.circle": "float",
    "shape.DefinedShape.__float__": "float() conversion by definition", "shape.ConnectedShape.__float__": "float()",
    "shape.DisjointShape.__float__": "float()", "shape.EmptyShape.__float__": "float()", "shape.WholeShape.__float__": "float()",
    "polygon.Box.__float__": "float()",
}
NONEXACT_SUFFIX = ("__contains__", "__eq__", "__str__", "__repr__", "__bool__", "contains_point", "contains_jordan",
                   "contains_shape", "_contains_point", "_contains_shape", "__contains_simple")

STRAIGHT_BRANCH_ONLY = {"curve.PlanarCurve.__and__"}


def _tests_degree_one(test):
    for n in ast.walk(test):
        if isinstance(n, ast.Compare) and len(n.ops) == 1 and isinstance(n.ops[0], ast.Eq):
            sides = [n.left, n.comparators[0]]
            if any(isinstance(x, ast.Attribute) and x.attr == "degree" for x in sides) and any(
                    isinstance(x, ast.Constant) and x.value == 1 for x in sides):
                return True
    return False


ORDER = {"Z": 0, "I": 1, "Q": 2, "S": 3, "A": 8, "F": 9, "B": -1}
# documented / allowed uses of limit_denominator: (function, why)
CAP_ALLOWED = {"polygon.Point2D.__init__": "documented cap of stored coordinates (denominator <= 10**9)"}
MIN_CAP = 10 ** 9


def join(a, b):
    if a == "B":
        return b
    if b == "B":
        return a
    return a if ORDER[a] >= ORDER[b] else b


FLOAT_CALLS = {"math.sqrt", "np.cos", "np.sin", "np.tan", "np.arctan2", "np.linspace", "np.empty", "math.cos", "math.sin",
               "np.sqrt", "math.tan", "math.atan2", "math.hypot", "np.hypot", "np.float64", "np.arccos", "np.arcsin",
               "math.acos", "math.asin", "math.exp", "math.log", "np.exp", "np.log", "math.radians", "math.degrees"}
FLOAT_CONSTS = {"math.pi", "np.pi", "math.tau", "math.e", "np.e", "math.inf", "np.inf"}
KEEP_BUILTINS = {"min", "max", "sum", "abs", "tuple", "list", "sorted", "zip", "map", "reversed", "set", "enumerate", "copy",
                 "next", "iter", "dict"}


FLOAT_MARKERS = ("math.pi", "math.sin", "math.cos", "math.sqrt", "math.tan", "math.exp", "math.log", "np.polynomial",
                 "np.cos", "np.sin", "np.sqrt", "np.pi", "np.linalg.solve", "np.linalg.inv", "np.roots", "np.linspace",
                 "np.float64", "np.random")
_PYNURBS_FLOAT = None


def pynurbs_float_functions():
    """names of the functions of the installed pynurbs package that produce floats whatever they are given: their
    source (read, not imported) refers to a floating-point primitive, directly or through another pynurbs function"""
    global _PYNURBS_FLOAT
    if _PYNURBS_FLOAT is not None:
        return _PYNURBS_FLOAT
    import glob
    import importlib.util
    import os
    out, bodies = set(), {}
    try:
        spec = importlib.util.find_spec("pynurbs")
        root = os.path.dirname(spec.origin) if spec and spec.origin else None
    except (ImportError, ValueError):
        root = None
    for path in (glob.glob(os.path.join(root, "*.py")) if root else []):
        try:
            tree = ast.parse(open(path).read())
        except (SyntaxError, OSError):
            continue
        for n in ast.walk(tree):
            if isinstance(n, ast.FunctionDef):
                bodies.setdefault(n.name, []).append(n)
    def refs(fn_nodes):
        txt, called = set(), set()
        for f in fn_nodes:
            for x in ast.walk(f):
                if isinstance(x, ast.Attribute):
                    try:
                        txt.add(ast.unparse(x))
                    except Exception:
                        pass
                if isinstance(x, ast.Call):
                    if isinstance(x.func, ast.Attribute):
                        called.add(x.func.attr)
                    elif isinstance(x.func, ast.Name):
                        called.add(x.func.id)
                        if x.func.id == "float":
                            txt.add("float(")
        return txt, called
    info = {name: refs(nodes) for name, nodes in bodies.items()}
    for name, (txt, called) in info.items():
        if any(t.startswith(FLOAT_MARKERS) for t in txt):
            out.add(name)
    # one step of propagation, for wrappers such as IntegratorArray.chebyshev -> NodeSample.chebyshev; names that are
    # too generic to identify a function are not followed
    direct = set(out) - {"solve", "invert", "eval", "__init__", "__call__", "__new__", "__add__", "__or__", "__radd__",
                         "__truediv__", "clean", "degree", "curve", "lenght", "spline", "bezier"}
    out = set(direct)
    for name, (txt, called) in info.items():
        if called & direct:
            out.add(name)
    out -= {"__init__", "__call__", "__new__", "__add__", "__or__", "__radd__", "__truediv__"}
    _PYNURBS_FLOAT = out
    return out


class ExactEngine:
    def cap_allowed(self, q, depth=0):
        """the documented coordinate cap: in Point2D.__init__ itself, or in a private helper of Point2D whose only callers
        are allowed (the same statement moved into `_bounded_fraction`)"""
        if q in CAP_ALLOWED:
            return True
        fn = self.M.funcs.get(q)
        if fn is None or depth > 2 or fn.cls != "Point2D" or not (fn.name.startswith("_") and not fn.name.endswith("__")):
            return False
        callers = [c for c in self.M.funcs if c != q and q in self.ctx.graph.callees(c)]
        return bool(callers) and all(self.cap_allowed(c, depth + 1) for c in callers)

    def __init__(self, ctx):
        self.ctx = ctx
        self.M = ctx.model
        self.findings = []          # (q, lineno, fact, text)
        self.sinks = 0
        self.missing = [q for q in EXACT if q not in self.M.funcs]
        self.analysed = []
        self.ret = {}               # q -> kind of the returned value ("S" while unknown)
        work = [q for q in EXACT if q in self.M.funcs]
        seen = set(work)
        # callee closure
        i = 0
        while i < len(work):
            q = work[i]
            i += 1
            fn = self.M.funcs[q]
            inf = ctx.typer.of(fn)
            on_path = None
            if q in STRAIGHT_BRANCH_ONLY:
                # only what the `degree == 1` branch (and the plain assignments in front of it) calls is on the exact path
                on_path = set()
                for st in fn.node.body:
                    if (isinstance(st, ast.If) and _tests_degree_one(st.test)) or isinstance(st, ast.Assign):
                        scope = st.body if isinstance(st, ast.If) else [st]
                        on_path |= {id(n) for b in scope for n in ast.walk(b)}
                    if isinstance(st, ast.If) and _tests_degree_one(st.test):
                        on_path |= {id(n) for n in ast.walk(st.test)}
            for node, kind, tg in inf.calls:
                if on_path is not None and id(node) not in on_path:
                    continue
                if kind in ("call", "dunder", "getter", "setter") and isinstance(tg, list):
                    for t in tg:
                        if t.qname in seen or t.qname in NONEXACT or t.name.endswith(NONEXACT_SUFFIX) or t.mod == "plot":
                            continue
                        seen.add(t.qname)
                        work.append(t.qname)
        self.closure = work
        for rnd in range(3):        # return kinds to a fixpoint
            self.findings = []
            self.sinks = 0
            before = dict(self.ret)
            for q in work:
                x = X(self, q)
                x.run()
                self.ret[q] = x.retkind
            if before == self.ret:
                break
        self.analysed = list(work)


class X:
    def __init__(self, eng, q):
        self.eng, self.q = eng, q
        self.fn = eng.M.funcs[q]
        self.inf = eng.ctx.typer.of(self.fn)
        self.env = {}
        self.retkind = "B"
        a = self.fn.node.args
        for p in a.posonlyargs + a.args + ([a.vararg] if a.vararg else []) + a.kwonlyargs:
            ann = U(p.annotation) if p.annotation else ""
            self.env[p.arg] = "I" if ann == "int" or ("int" in ann and "float" not in ann and "Point" not in ann) else "S"

    def flag(self, node, fact):
        self.eng.findings.append((self.q, getattr(node, "lineno", 0), fact, U(node)[:70].replace("\n", " ")))

    def sink(self, node, k, what):
        self.eng.sinks += 1
        if k == "F":
            self.flag(node, f"a float reaches {what}")
        elif k == "A":
            self.flag(node, f"a rational rounded by limit_denominator reaches {what}")

    def run(self):
        if self.q in STRAIGHT_BRANCH_ONLY:
            # mixed function: only the branch guarded by `degree == 1` lies on the exact path
            found = False
            for st in self.fn.node.body:
                if isinstance(st, ast.If) and _tests_degree_one(st.test):
                    self.block(st.body)
                    found = True
                elif isinstance(st, ast.Assign):
                    self.stmt(st)
            if not found:
                self.flag(self.fn.node, "no branch for straight segments (degree == 1) found on the exact path")
            return
        self.block(self.fn.node.body)

    def block(self, body):
        for st in body:
            self.stmt(st)

    def setname(self, t, k):
        if isinstance(t, ast.Name):
            self.env[t.id] = k
        elif isinstance(t, (ast.Tuple, ast.List)):
            for e in t.elts:
                self.setname(e, k)
        elif isinstance(t, ast.Starred):
            self.setname(t.value, k)

    def stmt(self, st):
        if isinstance(st, ast.Assign):
            k = self.ev(st.value)
            for t in st.targets:
                if isinstance(t, (ast.Name, ast.Tuple, ast.List)):
                    self.setname(t, k)
                elif isinstance(t, ast.Attribute):
                    self.sink(st, k, f"the store to .{t.attr}")
                elif isinstance(t, ast.Subscript):
                    self.ev(t.value)
                    r = pat.root_name(t)
                    if r:
                        self.env[r] = join(self.env.get(r, "B"), k)
        elif isinstance(st, ast.AugAssign):
            cur = self.env.get(st.target.id, "B") if isinstance(st.target, ast.Name) else self.ev(st.target)
            k = self.binop(st, st.op, cur, self.ev(st.value))
            if isinstance(st.target, ast.Name):
                self.env[st.target.id] = k
            elif isinstance(st.target, ast.Attribute):
                self.sink(st, k, f"the store to .{st.target.attr}")
        elif isinstance(st, ast.For):
            k = self.ev(st.iter)
            for _ in range(2):
                self.setname(st.target, k)
                self.block(st.body)
            self.block(st.orelse)
        elif isinstance(st, ast.While):
            for _ in range(2):
                self.block(st.body)
            self.block(st.orelse)
        elif isinstance(st, ast.If):
            e0 = dict(self.env)
            self.block(st.body)
            e1 = self.env
            self.env = dict(e0)
            self.block(st.orelse)
            for k in set(e1) | set(self.env):
                self.env[k] = join(e1.get(k, "B"), self.env.get(k, "B"))
        elif isinstance(st, ast.Try):
            self.block(st.body)
            for h in st.handlers:
                self.block(h.body)
            self.block(st.orelse)
            self.block(st.finalbody)
        elif isinstance(st, ast.With):
            self.block(st.body)
        elif isinstance(st, ast.Return):
            if st.value is not None:
                k = self.ev(st.value)
                self.retkind = join(self.retkind, k)
                self.sink(st, k, "the return value")
        elif isinstance(st, ast.Expr):
            if isinstance(st.value, ast.Call) and isinstance(st.value.func, ast.Name) and st.value.func.id in ("float", "int"):
                return      # validation, result discarded
            self.ev(st.value)

    def binop(self, node, op, l, r):
        if "F" in (l, r):
            return "F"
        if "A" in (l, r):
            return "A"
        if isinstance(op, ast.Div):
            if l in ("I", "Z") and r in ("I", "Z"):
                self.flag(node, "true division of two ints yields a float")
                return "F"
            return join(l, r) if "Q" in (l, r) or "S" in (l, r) else "F"
        return join(l, r)

    def ev(self, e):
        if e is None:
            return "B"
        if isinstance(e, ast.Constant):
            if isinstance(e.value, bool):
                return "B"
            if isinstance(e.value, int):
                return "Z" if e.value == 0 else "I"
            if isinstance(e.value, float):
                return "F"
            return "B"
        if isinstance(e, ast.Name):
            return self.env.get(e.id, "B")
        if isinstance(e, ast.Attribute):
            if U(e) in FLOAT_CONSTS:
                return "F"
            self.ev(e.value)
            if e.attr in ("degree", "npts", "numerator", "denominator"):
                return "I"
            tg = self.inf.targets(e, ("getter",))
            if tg:
                ks = [self.eng.ret.get(t.qname, "S") for t in tg if t.qname in self.eng.ret]
                k = "B"
                for x in ks:
                    k = join(k, x)
                return k if k != "B" else "S"
            if e.attr in ("_x", "_y", "ctrlpoints", "segments", "vertices", "lowpt", "toppt", "jordans", "subshapes"):
                return "S"
            return self.ev(e.value)
        if isinstance(e, ast.Subscript):
            self.ev(e.slice) if not isinstance(e.slice, ast.Slice) else None
            return self.ev(e.value)
        if isinstance(e, (ast.Tuple, ast.List, ast.Set)):
            k = "B"
            for x in e.elts:
                k = join(k, self.ev(x))
            return k
        if isinstance(e, ast.Starred):
            return self.ev(e.value)
        if isinstance(e, (ast.ListComp, ast.GeneratorExp, ast.SetComp)):
            for g in e.generators:
                self.setname(g.target, self.ev(g.iter))
            return self.ev(e.elt)
        if isinstance(e, ast.IfExp):
            return join(self.ev(e.body), self.ev(e.orelse))
        if isinstance(e, (ast.Compare, ast.BoolOp)):
            for c in ast.iter_child_nodes(e):
                if isinstance(c, ast.expr):
                    self.ev(c)
            return "B"      # predicates may use floats
        if isinstance(e, ast.UnaryOp):
            return "B" if isinstance(e.op, ast.Not) else self.ev(e.operand)
        if isinstance(e, ast.BinOp):
            l, r = self.ev(e.left), self.ev(e.right)
            if isinstance(e.op, ast.Pow):
                return l
            return self.binop(e, e.op, l, r)
        if isinstance(e, ast.Call):
            return self.call(e)
        return "B"

    def call(self, e):
        f = U(e.func)
        args = [self.ev(a) for a in e.args]
        for k in e.keywords:
            self.ev(k.value)
        allk = "B"
        for a in args:
            allk = join(allk, a)
        last = f.split(".")[-1]
        if f in ("Fraction", "fractions.Fraction") or last == "limit_denominator":
            for a, k in zip(e.args, args):
                if k == "F":
                    self.flag(e, f"Fraction API `{last}` receives a float argument")
                elif last == "limit_denominator":
                    v = pat.const_value(a)
                    if isinstance(v, float):
                        self.flag(e, f"Fraction API `{last}` receives a float argument")
            if last == "limit_denominator":
                base = self.ev(e.func.value) if isinstance(e.func, ast.Attribute) else "S"
                if self.eng.cap_allowed(self.q):
                    v = pat.const_value(e.args[0]) if e.args else None
                    if v is None and e.args:
                        v = self.class_const_value(e.args[0])        # self.max_denom / Point2D.MAX_DEN = int(1 / tol) ...
                    if isinstance(v, (int, float)) and v < MIN_CAP:
                        self.flag(e, f"denominator cap {v} is below the documented 10**9")
                    return base
                self.flag(e, "limit_denominator rounds a rational value on the exact path")
                return "A"
            return "Q" if all(k in ("I", "Z", "Q") for k in args) else (join("Q", args[0]) if args else "Q")
        if f == "float":
            return "F"
        if f in FLOAT_CALLS:
            return "F"
        if f in ("np.zeros", "np.eye", "np.ones", "np.array", "np.empty"):
            dt = [U(k.value) for k in e.keywords if k.arg == "dtype"]
            if dt and dt[0].strip("'\"") in ("object", "int64", "int"):
                return "I" if f != "np.array" else allk
            return "F"
        if f in ("len", "range", "int", "id", "round"):
            return "I"
        if f in ("isinstance", "bool", "all", "any", "callable", "hasattr"):
            return "B"
        # repository callees: use their return kind
        tg = [t for t in self.inf.targets(e) if t.kind != "setter"]
        ctor = [t for k2, tgs in self.inf.by_node.get(id(e), []) if k2 == "ctor" for t in tgs]
        if ctor or (isinstance(e.func, ast.Name) and e.func.id in self.eng.M.classes) or last == "__class__" or f == "cls":
            cname = f
            for a, kk in zip(e.args, args):
                self.sink(a, kk, f"an argument of {cname}(...)")
            return "S"
        if tg:
            k = "B"
            known = False
            for t in tg:
                if t.qname in self.eng.ret:
                    k = join(k, self.eng.ret[t.qname])
                    known = True
                elif t.qname in NONEXACT or t.name.endswith(NONEXACT_SUFFIX):
                    rk = "B" if t.name.endswith(NONEXACT_SUFFIX) else "F"
                    k = join(k, rk)
                    known = True
            if known:
                if k == "S":
                    # "same as the input": the result is as exact as the arguments / receiver
                    k2 = allk
                    if isinstance(e.func, ast.Attribute):
                        k2 = join(k2, self.ev(e.func.value))
                    return k2 if k2 != "B" else "S"
                return k
        if f.startswith("pynurbs.") and last in pynurbs_float_functions() and last not in (
                "open_newton_cotes", "closed_newton_cotes", "bezier", "Curve", "split", "knot_clean", "spline",
                "derivate_nonrational_bezier"):
            return "F"            # e.g. gauss_legendre / chebyshev nodes and weights are floats whatever the input
        if f.startswith(("np.", "pynurbs.")) or last in ("open_newton_cotes", "bezier", "Curve", "split", "knot_clean"):
            return allk if allk != "B" else "Q"       # trusted base: preserves the kind of its arguments
        if f in KEEP_BUILTINS or isinstance(e.func, ast.Attribute):
            k = allk
            if isinstance(e.func, ast.Attribute):
                k = join(k, self.ev(e.func.value))
            return k if k != "B" else "S"
        if isinstance(e.func, ast.Name) and e.func.id in self.env:
            return join(self.env.get(e.func.id, "S"), allk)      # curve(u)
        return "S"


def _class_const_value(self, e, depth=0):
    """numeric value of an expression made of literals, class-level constants of the enclosing class (read as
    self.X / cls.X / Class.X / X), module constants and int() / round() / float() / abs() -- evaluated with Python's own
    arithmetic, so that `int(1 / 1e-9)` is the 999999999 it really is"""
    M = self.eng.M
    cls = M.funcs[self.q].cls
    if depth > 6:
        return None
    v = pat.const_value(e)
    if v is not None:
        return v
    name = None
    if isinstance(e, ast.Attribute) and isinstance(e.value, ast.Name) and (e.value.id in ("self", "cls") or e.value.id == cls):
        name = e.attr
    elif isinstance(e, ast.Name):
        name = e.id
    if name is not None:
        for k in ([cls] + M.mro(cls)[1:] if cls else []):
            if name in M.class_consts.get(k, {}):
                return _class_const_value(self, M.class_consts[k][name], depth + 1)
        mod = M.modules.get(M.funcs[self.q].mod)
        mc = pat.module_consts(mod) if mod is not None else {}
        return mc.get(name)
    if isinstance(e, ast.BinOp):
        l, r = _class_const_value(self, e.left, depth + 1), _class_const_value(self, e.right, depth + 1)
        if l is None or r is None:
            return None
        try:
            return {ast.Add: lambda: l + r, ast.Sub: lambda: l - r, ast.Mult: lambda: l * r, ast.Div: lambda: l / r,
                    ast.FloorDiv: lambda: l // r, ast.Pow: lambda: l ** r, ast.Mod: lambda: l % r}[type(e.op)]()
        except (KeyError, ZeroDivisionError, OverflowError):
            return None
    if isinstance(e, ast.UnaryOp) and isinstance(e.op, ast.USub):
        v = _class_const_value(self, e.operand, depth + 1)
        return None if v is None else -v
    if isinstance(e, ast.Call) and isinstance(e.func, ast.Name) and e.func.id in ("int", "round", "float", "abs") and len(e.args) == 1:
        v = _class_const_value(self, e.args[0], depth + 1)
        return None if v is None else {"int": int, "round": round, "float": float, "abs": abs}[e.func.id](v)
    return None


X.class_const_value = _class_const_value


def exactness(ctx):
    return ctx.engine("exact", ExactEngine)
