"""Engine E: exception escape analysis.

For every function: the failure sites it contains (explicit `raise`, `assert`,
and divisions whose denominator is not guarded non-zero) and its resolved call
sites, each with the set of exception types handled by the enclosing `try`
statements.  `escapes(entry)` propagates failures up the call graph minus the
enclosing handlers and returns, for every failure that can reach the entry
unhandled, one witnessing call path.
"""
from __future__ import annotations

import ast
import collections

from . import pat

U = ast.unparse


def handler_types(h):
    if h.type is None:
        return {"BaseException"}
    ts = h.type.elts if isinstance(h.type, ast.Tuple) else [h.type]
    return {U(t) for t in ts}


HIER = {"ZeroDivisionError": {"ArithmeticError"}, "IndexError": {"LookupError"}, "KeyError": {"LookupError"},
        "AssertionError": set(), "ValueError": set(), "TypeError": set(), "NotImplementedError": {"RuntimeError"}}


def covers(handled, exc):
    return exc in handled or "Exception" in handled or "BaseException" in handled or bool(HIER.get(exc, set()) & handled)


class Failure:
    def __init__(self, q, node, exc, kind, cond, path=()):
        self.q, self.node, self.exc, self.kind, self.cond = q, node, exc, kind, cond
        self.path = list(path)     # [(test, polarity)]: tests known to hold / not to hold where the failure sits

    @property
    def line(self):
        return getattr(self.node, "lineno", 0)


class Escape:
    def __init__(self, ctx):
        self.ctx = ctx
        self.sites = {}       # q -> [(handled frozenset, 'fail', Failure) | (handled, 'call', callee qname, node)]
        for q, fn in ctx.model.funcs.items():
            saved = dict(pat.MODULE_CONSTS)
            pat.MODULE_CONSTS.clear()
            pat.MODULE_CONSTS.update(pat.module_consts(ctx.model.modules.get(fn.mod)))
            for prm in fn.params:                       # a parameter shadows a module constant of the same name
                pat.MODULE_CONSTS.pop(prm, None)
            try:
                self.sites[q] = self._scan(fn)
            finally:
                pat.MODULE_CONSTS.clear()
                pat.MODULE_CONSTS.update(saved)

    def _scan(self, fn):
        inf = self.ctx.typer.of(fn)
        sites = []
        q = fn.qname

        def exprs_of(st):
            if isinstance(st, (ast.If, ast.While)):
                return [st.test]
            if isinstance(st, ast.For):
                return [st.iter]
            if isinstance(st, ast.With):
                return [i.context_expr for i in st.items]
            if isinstance(st, ast.Try):
                return []
            if isinstance(st, (ast.FunctionDef, ast.AsyncFunctionDef)):
                return list(st.args.defaults) + [d for d in st.args.kw_defaults if d is not None]   # body: walked as a block
            return [st]

        guards = []
        pathc = []            # path condition: (test, polarity) of the enclosing / preceding early-exit `if`s

        def walk(stmts, handled, nonzero):
            mark = len(pathc)
            try:
                return _walk(stmts, handled, nonzero)
            finally:
                del pathc[mark:]

        def _walk(stmts, handled, nonzero):
            for st in stmts:
                if isinstance(st, (ast.FunctionDef, ast.AsyncFunctionDef)):
                    # a closure: its body is analysed flow-sensitively like any block (what fails in it fails in the
                    # enclosing function when the closure is called); facts about enclosing locals are not assumed
                    walk(st.body, handled, frozenset())
                if isinstance(st, ast.Try):
                    hs = set(handled)
                    for h in st.handlers:
                        hs |= handler_types(h)
                    walk(st.body, frozenset(hs), nonzero)
                    walk(st.orelse, handled, nonzero)
                    walk(st.finalbody, handled, nonzero)
                    for h in st.handlers:
                        guards.append(ast.Name(id="<except " + "|".join(sorted(handler_types(h))) + ">", ctx=ast.Load()))
                        walk(h.body, handled, nonzero)
                        guards.pop()
                    continue
                if isinstance(st, ast.Assert):
                    sites.append((handled, "fail", Failure(q, st, "AssertionError", "assert", st.test, list(pathc))))
                    nonzero = nonzero | _positive_facts(st.test)
                if isinstance(st, ast.Expr) and isinstance(st.value, ast.Call):
                    # `_check_at_least(npts, 1)`: the asserts of a resolved validating helper hold for the arguments
                    helper_tgs = inf.targets(st.value, ("call",))
                    for t in (helper_tgs if len(helper_tgs) == 1 else []):
                        ps = [a.arg for a in t.node.args.posonlyargs + t.node.args.args]
                        if t.kind in ("method", "getter", "setter", "class") and isinstance(st.value.func, ast.Attribute) and ps:
                            ps = ps[1:]
                        amap = dict(zip(ps, st.value.args))
                        amap.update({k.arg: k.value for k in st.value.keywords if k.arg in ps})
                        for hst in t.node.body:
                            if isinstance(hst, ast.Expr) and isinstance(hst.value, ast.Constant):
                                continue
                            if not isinstance(hst, ast.Assert):
                                break
                            class Sub(ast.NodeTransformer):
                                def visit_Name(self, n):
                                    return amap.get(n.id, n) if isinstance(n.ctx, ast.Load) else n
                            import copy as _copy
                            test2 = Sub().visit(_copy.deepcopy(hst.test))
                            nonzero = nonzero | _positive_facts(test2)
                # a local bound to a non-zero expression is non-zero until it is rebound
                if isinstance(st, (ast.Assign, ast.AnnAssign, ast.AugAssign)):
                    tgts = st.targets if isinstance(st, ast.Assign) else [st.target]
                    for tg in tgts:
                        for nm in [x for x in ast.walk(tg) if isinstance(x, ast.Name)]:
                            nonzero = nonzero - {nm.id}
                    if isinstance(st, (ast.Assign, ast.AnnAssign)) and len(tgts) == 1 and isinstance(tgts[0], ast.Name) \
                            and st.value is not None and _is_nonzero(st.value, nonzero) \
                            and not any(isinstance(x, ast.Name) and x.id == tgts[0].id for x in ast.walk(st.value)):
                        nonzero = nonzero | {tgts[0].id}
                if isinstance(st, ast.Assign) and len(st.targets) == 1 and isinstance(st.targets[0], ast.Name):
                    # clamp idiom  x = x if abs(x) > c else c   (c a non-zero constant)
                    v = st.value
                    if isinstance(v, ast.IfExp):
                        c = pat.const_value(v.orelse)
                        tr, fa = _nonzero_facts(v.test)
                        if c is not None and c != 0 and _expr_key(v.body) in tr:
                            nonzero = nonzero | {_expr_key(st.targets[0])}
                if isinstance(st, ast.Raise):
                    exc = "?"
                    if st.exc is not None:
                        e = st.exc.func if isinstance(st.exc, ast.Call) else st.exc
                        exc = U(e)
                    sites.append((handled, "fail", Failure(q, st, exc, "raise", guards[-1] if guards else None, list(pathc))))
                for root in exprs_of(st):
                    for sub in ast.walk(root):
                        for t in inf.targets(sub):
                            sites.append((handled, "call", t.qname, sub))
                        if isinstance(sub, ast.BinOp) and isinstance(sub.op, (ast.Div, ast.FloorDiv, ast.Mod)):
                            d = sub.right
                            v = pat.const_value(d)
                            if v is not None and v != 0:
                                continue
                            if _is_nonzero(d, nonzero):
                                continue
                            sites.append((handled, "fail", Failure(q, sub, "ZeroDivisionError", "division", d)))
                        if isinstance(sub, ast.AugAssign):
                            pass
                if isinstance(st, ast.AugAssign) and isinstance(st.op, (ast.Div, ast.FloorDiv, ast.Mod)):
                    d = st.value
                    v = pat.const_value(d)
                    if not (v is not None and v != 0) and not _is_nonzero(d, nonzero):
                        sites.append((handled, "fail", Failure(q, st, "ZeroDivisionError", "division", d)))
                if isinstance(st, ast.If):
                    nz_true, nz_false = _nonzero_facts(st.test)
                    guards.append(st.test)
                    pathc.append((st.test, True))
                    out_t = walk(st.body, handled, nonzero | nz_true)
                    guards.pop()
                    pathc[-1] = (st.test, False)
                    out_f = walk(st.orelse, handled, nonzero | nz_false)
                    pathc.pop()
                    if out_t is None and out_f is not None:
                        pathc.append((st.test, False))       # `if T: return ...` -- not T from here on
                    elif out_f is None and out_t is not None:
                        pathc.append((st.test, True))
                    # facts after the `if`: those holding at the end of every branch that falls through (an early
                    # exit `if d == 0: return` leaves d non-zero; `if not abs(d) > c: d = c` leaves d non-zero)
                    live = [o for o in (out_t, out_f) if o is not None]
                    if not live:
                        return None
                    nonzero = live[0] if len(live) == 1 else (live[0] & live[1])
                elif isinstance(st, (ast.For, ast.While)):
                    assigned = {x.id for b in st.body for x in ast.walk(b) if isinstance(x, ast.Name) and isinstance(x.ctx, ast.Store)}
                    walk(st.body, handled, nonzero - assigned)
                    walk(getattr(st, "orelse", []), handled, nonzero - assigned)
                    nonzero = nonzero - assigned
                elif isinstance(st, ast.With):
                    r = walk(st.body, handled, nonzero)
                    if r is None:
                        return None
                    nonzero = r
                if isinstance(st, (ast.Return, ast.Raise, ast.Continue, ast.Break)):
                    return None
            return nonzero
        walk(fn.node.body, frozenset(), frozenset())
        return sites

    def escapes(self, entry):
        """{failure id: (Failure, path)} of failures reaching `entry` unhandled"""
        found = {}
        seen = set()

        def dfs(q, handled, path):
            if (q, handled) in seen or len(path) > 40:
                return
            seen.add((q, handled))
            for site in self.sites.get(q, []):
                hh = handled | site[0]
                if site[1] == "fail":
                    f = site[2]
                    if not covers(hh, f.exc):
                        key = id(f.node)
                        if key not in found or len(path) + 1 < len(found[key][1]):
                            found[key] = (f, path + [q])
                else:
                    dfs(site[2], frozenset(hh), path + [q])
        dfs(entry, frozenset(), [])
        return found


def _expr_key(e):
    return ast.unparse(e)


def _is_nonzero(d, nonzero):
    if _expr_key(d) in nonzero or _structurally_nonzero(d):
        return True
    v = pat.const_value(d)
    if v is not None and v != 0:
        return True
    if isinstance(d, ast.BinOp) and isinstance(d.op, ast.Mult):
        return _is_nonzero(d.left, nonzero) and _is_nonzero(d.right, nonzero)
    return False


def _positive_facts(test):
    """expressions known to be > 0 (hence non-zero) when an assertion `x >= c` (c > 0) / `x > c` (c >= 0) holds"""
    out = set()
    for t in (test.values if isinstance(test, ast.BoolOp) and isinstance(test.op, ast.And) else [test]):
        if isinstance(t, ast.Compare) and len(t.ops) == 1:
            l, r, op = t.left, t.comparators[0], t.ops[0]
            c = pat.const_value(r)
            if c is not None and ((isinstance(op, ast.GtE) and c > 0) or (isinstance(op, ast.Gt) and c >= 0)):
                out.add(_expr_key(l))
            c2 = pat.const_value(l)
            if c2 is not None and ((isinstance(op, ast.LtE) and c2 > 0) or (isinstance(op, ast.Lt) and c2 >= 0)):
                out.add(_expr_key(r))
    return frozenset(out)


def _structurally_nonzero(d):
    """2 * n, n + 1, len(x) + 1 ... with non-negative parts: recognised conservatively"""
    if isinstance(d, ast.BinOp) and isinstance(d.op, ast.Add):
        l, r = pat.const_value(d.left), pat.const_value(d.right)
        if (l is not None and l > 0) or (r is not None and r > 0):
            # n + 1 with n a count / exponent (non-negative by the asserts of the callers): accepted
            return True
    if isinstance(d, ast.Attribute) and U(d) in ("math.tau", "math.pi", "np.pi"):
        return True
    return False


def _nonzero_facts(test):
    """(facts when test true, facts when test false): sets of expression keys known to be non-zero"""
    t, neg = pat._strip_not(test)
    tr, fa = set(), set()
    if isinstance(t, ast.Compare) and len(t.ops) == 1:
        l, r = t.left, t.comparators[0]
        op = t.ops[0]
        zero_r = isinstance(r, ast.Constant) and r.value == 0
        if zero_r and isinstance(op, ast.NotEq):
            tr.add(_expr_key(l))
        if zero_r and isinstance(op, ast.Eq):
            fa.add(_expr_key(l))
        # abs(x) > c / abs(x) < c
        if isinstance(l, ast.Call) and isinstance(l.func, ast.Name) and l.func.id == "abs" and l.args:
            c = pat.const_value(r)
            if c is not None and c >= 0:
                if isinstance(op, (ast.Gt, ast.GtE)) and (c > 0 or isinstance(op, ast.Gt)):
                    tr.add(_expr_key(l.args[0]))
                if isinstance(op, (ast.Lt, ast.LtE)) and (c > 0 or isinstance(op, ast.LtE)):
                    fa.add(_expr_key(l.args[0]))
    elif isinstance(t, ast.Name) or isinstance(t, ast.Attribute):
        tr.add(_expr_key(t))
    if neg:
        tr, fa = fa, tr
    return frozenset(tr), frozenset(fa)


def escape(ctx):
    return ctx.engine("escape", Escape)
