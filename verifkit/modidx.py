"""Cyclic-successor indexing rule: in `S[(expr) % n]` the modulus n must be the
length of the sequence S that is indexed (or of a sequence proven to have the
same length).  Length equalities are derived from
   n = len(X)                              n ~ X
   Y = X / tuple(X) / list(X)              Y ~ X
   Y = [f(x) for x in X]                   Y ~ X      (no filter)
   Y = []; for x in X: Y.append(..)        Y ~ X      (one unconditional append per iteration)
   if len(A) != len(B): return / raise     A ~ B afterwards
   for i, x in enumerate(X)                (index variable bounded by X; not needed for the modulus rule)
Sequences are identified by the normalised source of their expression.
"""
from __future__ import annotations

import ast

from . import pat

U = ast.unparse


class UF:
    def __init__(self):
        self.p = {}

    def find(self, x):
        self.p.setdefault(x, x)
        while self.p[x] != x:
            self.p[x] = self.p[self.p[x]]
            x = self.p[x]
        return x

    def union(self, a, b):
        self.p[self.find(a)] = self.find(b)

    def same(self, a, b):
        return self.find(a) == self.find(b)


def _len_arg(e):
    if isinstance(e, ast.Call) and isinstance(e.func, ast.Name) and e.func.id == "len" and len(e.args) == 1:
        return e.args[0]
    return None


def _len_key(e):
    """union-find key of a length expression: len(X) or a local name holding a length"""
    if isinstance(e, ast.NamedExpr) and isinstance(e.target, ast.Name):
        return "len:" + e.target.id if _len_arg(e.value) is not None else _len_key(e.value)
    la = _len_arg(e)
    if la is not None:
        return "seq:" + U(la)
    if isinstance(e, ast.Name):
        return "len:" + e.id
    return None


def _helper_modulus(call, inf):
    """the modulus argument when `call` resolves to one repository helper of the form `return (<expr>) % <param>`"""
    if inf is None or not isinstance(call, ast.Call):
        return None
    tgs = inf.targets(call, ("call",))
    if len(tgs) != 1:
        return None
    g = tgs[0]
    body = [st for st in g.node.body if not (isinstance(st, ast.Expr) and isinstance(st.value, ast.Constant))]
    if len(body) != 1 or not isinstance(body[0], ast.Return):
        return None
    r = body[0].value
    if not (isinstance(r, ast.BinOp) and isinstance(r.op, ast.Mod) and isinstance(r.right, ast.Name)):
        return None
    ps = [a.arg for a in g.node.args.posonlyargs + g.node.args.args]
    if g.kind in ("method", "getter", "setter", "class") and isinstance(call.func, ast.Attribute) and ps:
        ps = ps[1:]
    if r.right.id not in ps:
        return None
    i = ps.index(r.right.id)
    if i < len(call.args):
        return call.args[i]
    for k in call.keywords:
        if k.arg == r.right.id:
            return k.value
    return None


def analyse(fn, inf=None):
    """[(node, sequence text, modulus text, ok, why)] for every modular index in fn"""
    uf = _facts(fn)
    body = fn.node
    return _judge(fn, inf, uf, body)


def equal_lengths(fn, a, b):
    """do the length facts of fn show that the sequences spelled `a` and `b` have the same length?"""
    uf = _facts(fn)
    return a == b or uf.same("seq:" + a, "seq:" + b)


def length_of(fn, name):
    """the sequence texts whose length the local `name` is known to hold in fn"""
    uf = _facts(fn)
    root = uf.find("len:" + name)
    return [k[4:] for k in list(uf.p) if k.startswith("seq:") and uf.find(k) == root]


def _facts(fn):
    uf = UF()
    body = fn.node
    # facts
    for n in ast.walk(body):
        if isinstance(n, ast.NamedExpr) and isinstance(n.target, ast.Name) and _len_arg(n.value) is not None:
            uf.union("len:" + n.target.id, "seq:" + U(_len_arg(n.value)))       # (n := len(X))
        if isinstance(n, ast.Assign) and len(n.targets) == 1 and isinstance(n.targets[0], (ast.Tuple, ast.List)) \
                and isinstance(n.value, (ast.Tuple, ast.List)) and len(n.targets[0].elts) == len(n.value.elts):
            for tt, vv in zip(n.targets[0].elts, n.value.elts):                # a, b = tuple(a), tuple(b)
                if isinstance(tt, ast.Name) and isinstance(vv, ast.Call) and isinstance(vv.func, ast.Name) \
                        and vv.func.id in ("tuple", "list") and len(vv.args) == 1 and not isinstance(vv.args[0], (ast.GeneratorExp, ast.ListComp)):
                    uf.union("seq:" + tt.id, "seq:" + U(vv.args[0]))
        if isinstance(n, ast.Assign) and len(n.targets) == 1 and isinstance(n.targets[0], ast.Name):
            t, v = n.targets[0].id, n.value
            la = _len_arg(v)
            if la is not None:
                uf.union("len:" + t, "seq:" + U(la))
            elif isinstance(v, (ast.Name, ast.Attribute)):
                uf.union("seq:" + t, "seq:" + U(v))
            elif isinstance(v, ast.Call) and isinstance(v.func, ast.Name) and v.func.id in ("tuple", "list") and len(v.args) == 1:
                a = v.args[0]
                if isinstance(a, (ast.GeneratorExp, ast.ListComp)):
                    if len(a.generators) == 1 and not a.generators[0].ifs:
                        uf.union("seq:" + t, "seq:" + U(a.generators[0].iter))
                else:
                    uf.union("seq:" + t, "seq:" + U(a))
            elif isinstance(v, (ast.ListComp, ast.GeneratorExp)) and len(v.generators) == 1 and not v.generators[0].ifs:
                it = v.generators[0].iter
                if isinstance(it, ast.Call) and isinstance(it.func, ast.Name) and it.func.id == "enumerate" and it.args:
                    it = it.args[0]
                uf.union("seq:" + t, "seq:" + U(it))
            elif isinstance(v, ast.BinOp) and isinstance(v.op, ast.Mult) and isinstance(v.left, ast.List) and len(v.left.elts) == 1:
                la2 = _len_arg(v.right)
                if la2 is not None:
                    uf.union("seq:" + t, "seq:" + U(la2))          # [0] * len(X)
                elif isinstance(v.right, ast.Name):
                    uf.union("seq:" + t, "lenname:" + v.right.id)   # [0] * n
        if isinstance(n, ast.For) and not n.orelse:
            it = n.iter
            if isinstance(it, ast.Call) and isinstance(it.func, ast.Name) and it.func.id == "enumerate" and it.args:
                it = it.args[0]
            # one unconditional append per iteration to a list created empty before the loop
            apps = [s for s in n.body if isinstance(s, ast.Expr) and isinstance(s.value, ast.Call)
                    and isinstance(s.value.func, ast.Attribute) and s.value.func.attr == "append"
                    and isinstance(s.value.func.value, ast.Name)]
            has_exit = any(isinstance(x, (ast.Break, ast.Continue, ast.Return)) for b in n.body for x in ast.walk(b))
            if not has_exit:
                for a in apps:
                    name = a.value.func.value.id
                    others = [x for x in ast.walk(body) if isinstance(x, ast.Call) and isinstance(x.func, ast.Attribute)
                              and x.func.attr in ("append", "extend", "insert", "pop", "remove")
                              and pat.root_name(x.func.value) == name and x is not a.value]
                    if not others:
                        uf.union("seq:" + name, "seq:" + U(it))
        if isinstance(n, ast.If) and n.body and isinstance(n.body[-1], (ast.Return, ast.Raise)) and not n.orelse:
            t = n.test
            if isinstance(t, ast.Compare) and len(t.ops) == 1 and isinstance(t.ops[0], ast.NotEq):
                a, b = _len_key(t.left), _len_key(t.comparators[0])
                if a is not None and b is not None:
                    uf.union(a, b)
        if isinstance(n, ast.Assert):
            for t in (n.test.values if isinstance(n.test, ast.BoolOp) and isinstance(n.test.op, ast.And) else [n.test]):
                if isinstance(t, ast.Compare) and len(t.ops) == 1 and isinstance(t.ops[0], ast.Eq):
                    a, b = _len_key(t.left), _len_key(t.comparators[0])
                    if a is not None and b is not None:
                        uf.union(a, b)
    # `n` names that are lengths: link lenname -> len
    for k in list(uf.p):
        if k.startswith("lenname:"):
            uf.union(k, "len:" + k[8:])
    return uf


def _judge(fn, inf, uf, body):
    out = []
    defs = pat.local_defs(fn)

    def modulus_of(idx, depth=0):
        """(modulus expr) if idx is `(..) % m`, following one level of local names"""
        if isinstance(idx, ast.BinOp) and isinstance(idx.op, ast.Mod):
            return idx.right
        hm = _helper_modulus(idx, inf)
        if hm is not None:
            return hm
        if isinstance(idx, ast.Name) and depth < 2:
            vals = [v for v in defs.get(idx.id, []) if not isinstance(v, tuple)]
            mods = [modulus_of(v, depth + 1) for v in vals]
            mods = [m for m in mods if m is not None]
            if len(mods) == 1 and len(vals) == 1:
                return mods[0]
        return None

    for n in ast.walk(body):
        if isinstance(n, ast.Subscript) and not isinstance(n.slice, ast.Slice):
            m = modulus_of(n.slice)
            if m is None:
                continue
            seq = "seq:" + U(n.value)
            la = _len_arg(m)
            if la is not None:
                key = "seq:" + U(la)
            elif isinstance(m, ast.Name):
                key = "len:" + m.id
            else:
                out.append((n, U(n.value), U(m), None, "modulus is not a length"))
                continue
            ok = uf.same(seq, key)
            out.append((n, U(n.value), U(m), ok, "" if ok else
                        f"`{U(m)}` is not the length of `{U(n.value)}` (nor of a sequence shown to have the same length)"))
    return out
