"""Rule / instance / verdict bookkeeping, known findings, evidence, exit codes.

Exit codes of a check
  0  every rule instance holds (or is a listed KNOWN-FINDING)
  1  VIOLATION: a rule instance is violated by a specific construct
  2  ANALYSIS-ERROR: the analysis cannot decide (never reported as violation)
"""
from __future__ import annotations

import json
import os
import time
import traceback

from . import kinds
from .model import AnalysisError, CallGraph, Model, Typer

ROOT = os.path.dirname(os.path.dirname(os.path.abspath(__file__)))
OK, BAD, UNDECIDED = "ok", "violation", "undecided"


class Instance:
    """One decided obligation of a rule.

    construct : qualified name of the function / class the obligation is about
    fact      : normalised abstract fact (part of the finding key; never a line)
    """

    def __init__(self, construct, fact, verdict=OK, where="", detail="", nontrivial=True, path=None):
        self.construct, self.fact, self.verdict = construct, fact, verdict
        self.where, self.detail, self.nontrivial, self.path = where, detail, nontrivial, path

    def as_json(self, rule):
        d = {"rule": rule, "construct": self.construct, "fact": self.fact, "verdict": self.verdict}
        if self.where:
            d["where"] = self.where
        if self.detail:
            d["detail"] = self.detail
        if self.path:
            d["path"] = self.path
        return d


class Outcome:
    def __init__(self, rule, text, floor=1):
        self.rule, self.text, self.floor = rule, text, floor
        self.instances = []
        self.notes = []
        self.exhaustive = False

    def add(self, construct, fact, verdict=OK, **kw):
        inst = Instance(construct, fact, verdict, **kw)
        self.instances.append(inst)
        return inst

    def ok(self, construct, fact, **kw):
        return self.add(construct, fact, OK, **kw)

    def bad(self, construct, fact, **kw):
        return self.add(construct, fact, BAD, **kw)

    def undecided(self, construct, fact, **kw):
        return self.add(construct, fact, UNDECIDED, **kw)

    def note(self, text):
        self.notes.append(text)


class Context:
    """Lazily built engines for one source tree."""

    def __init__(self, src=None):
        self.model = Model(src)
        self.typer = Typer(self.model)
        self._graph = None
        self._cache = {}

    @property
    def graph(self):
        if self._graph is None:
            self._graph = CallGraph(self.model, self.typer)
        return self._graph

    def engine(self, name, factory):
        if name not in self._cache:
            self._cache[name] = factory(self)
        return self._cache[name]

    def fn(self, q):
        return self.model.fn(q)

    def inf(self, q):
        return self.typer.of(self.model.fn(q))


def load_known():
    path = os.path.join(ROOT, "known_findings.json")
    if not os.path.exists(path):
        return []
    return json.load(open(path))["findings"]


def finding_key(prop, rule, inst):
    return (prop, rule, inst.construct, inst.fact)


def run_rules(prop, rules, ctx):
    """returns (outcomes, errors) -- a crashing rule is an analysis error"""
    outcomes, errors = [], []
    for rule in rules:
        try:
            out = rule(ctx)
            outs = out if isinstance(out, (list, tuple)) else [out]
            outcomes += outs
        except AnalysisError as e:
            errors.append(f"{rule.__name__}: {e}")
        except Exception as e:  # checker bug or unforeseen construct: inconclusive
            tb = traceback.format_exc().strip().splitlines()
            errors.append(f"{rule.__name__}: {type(e).__name__}: {e} [{tb[-3].strip() if len(tb) > 2 else ''}]")
    return outcomes, errors


def classify(prop, outcomes, errors):
    """split instances into violations / known / undecided; check floors"""
    known = [k for k in load_known() if k["property"] == prop and k.get("status") == "known"]
    kset = {(k["property"], k["rule"], k["construct"], k["fact"]): k for k in known}
    viol, kn, und = [], [], []
    errors = list(errors)
    for o in outcomes:
        for i in o.instances:
            if i.verdict == BAD:
                k = finding_key(prop, o.rule, i)
                (kn if k in kset else viol).append((o, i))
            elif i.verdict == UNDECIDED:
                und.append((o, i))
        if len(o.instances) < o.floor:
            errors.append(f"{o.rule}: only {len(o.instances)} instance(s) analysed, floor confirmed by hand is "
                          f"{o.floor} (an anchor moved or an idiom is no longer recognised)")
    return viol, kn, und, errors


def report(prop, tier, seed, outcomes, errors, ctx, t0, extra=None, assumptions=None, write_evidence=True):
    viol, kn, und, errors = classify(prop, outcomes, errors)
    lines = []
    replay = None
    if viol:
        os.makedirs(os.path.join(ROOT, "replay"), exist_ok=True)
        replay = os.path.join(ROOT, "replay", f"{prop}.json")
        json.dump({"property": prop, "source": ctx.model.src if ctx else None,
                   "violations": [i.as_json(o.rule) for o, i in viol]}, open(replay, "w"), indent=1)
    seenk = set()
    for o, i in kn:
        key = (o.rule, i.construct, i.fact)
        if key in seenk:
            continue
        seenk.add(key)
        lines.append(f"KNOWN-FINDING: property={prop} {o.rule} {i.construct}: {i.fact}")
    # a listed finding that is not observed: repaired in the tree -- or no longer seen by the analysis; said, never fatal
    listed = [k for k in load_known() if k["property"] == prop and k.get("status") == "known"]
    absent = [k for k in listed if (k["rule"], k["construct"], k["fact"]) not in seenk]
    for k in absent:
        lines.append(f"NOTE property={prop} listed known finding not observed on this tree: {k['rule']} {k['construct']}: {k['fact']}")
    from verifkit import pat as _pat
    for nt in sorted(set(_pat.NORMALISER_NOTES)):
        lines.append(f"NOTE property={prop} {nt}")
    for o, i in viol:
        lines.append(f"  {o.rule} {i.where} {i.construct}: {i.fact}" + (f" -- {i.detail}" if i.detail else "")
                     + (f" [path: {' -> '.join(i.path)}]" if i.path else ""))
    for o, i in und:
        lines.append(f"ANALYSIS-ERROR property={prop} {o.rule} undecided at {i.where} {i.construct}: {i.fact}"
                     + (f" -- {i.detail}" if i.detail else ""))
    for e in errors:
        lines.append(f"ANALYSIS-ERROR property={prop} {e}")
    if viol:
        lines.append(f"VIOLATION property={prop} replay={replay}")
    code = 1 if viol else (2 if (und or errors) else 0)

    n_inst = sum(len(o.instances) for o in outcomes)
    keys = set()
    for o in outcomes:
        for i in o.instances:
            if i.nontrivial:
                keys.add((o.rule, i.construct, i.fact))
    samples = []
    for o in outcomes:
        for i in o.instances[:2]:
            samples.append(i.as_json(o.rule))
    for o, i in (viol + kn)[:10]:
        samples.append(i.as_json(o.rule))
    cov = {
        "explanation": "static decision of the named structural clauses from the current source (ast only; no repository "
                       "code imported or run). Each rule is tagged S (structural / dataflow analysis), T (decision table: "
                       "abstract evaluation over every cell of a finite abstract domain) or W (abstract scenarios on "
                       "stand-in worlds; bounded) in per_rule[].method. Rules: "
                       + "; ".join(f"{o.rule}: {o.text}" for o in outcomes),
        "evaluations": max(n_inst, 0),
        "distinct_nontrivial": len(keys),
        "rule": "one evaluation = one rule instance (a construct the rule had to decide); distinct = distinct "
                "(rule, construct, abstract fact) keys; non-trivial = the rule had something to decide there",
        "samples": samples[:40],
        "exhaustive": all(o.exhaustive for o in outcomes) if outcomes else False,
        "per_rule": [{"rule": o.rule, "method": kinds.method(o.rule), "instances": len(o.instances), "floor": o.floor,
                      "violations": sum(1 for i in o.instances if i.verdict == BAD),
                      "undecided": sum(1 for i in o.instances if i.verdict == UNDECIDED),
                      "exhaustive_over_finite_domain": o.exhaustive, "notes": o.notes} for o in outcomes],
        "analysed": dict(ctx.model.census(), **ctx.graph.census()) if ctx else {},
        "source_root": ctx.model.src if ctx else None,
        "known_findings_reported": len(seenk),
        "normal_form_passes_skipped": sorted(set(_pat.NORMALISER_NOTES)),
        "known_findings_listed_but_not_observed": [f"{k['rule']} {k['construct']}: {k['fact']}" for k in absent],
        "analysis_errors": errors + [f"undecided: {o.rule} {i.construct}: {i.fact}" for o, i in und],
    }
    if extra:
        cov.update(extra)
    ev = {"property_id": prop, "tier": tier, "seed": seed, "level": "other", "coverage": cov,
          "assumptions": assumptions or [], "wall_s": round(time.time() - t0, 3), "violations": len(viol)}
    if write_evidence:
        os.makedirs(os.path.join(ROOT, "evidence"), exist_ok=True)
        with open(os.path.join(ROOT, "evidence", f"{prop}.json"), "w") as f:
            json.dump(ev, f, indent=1, default=str)
    return code, lines, ev
