"""Engine D: dimensional analysis of numeric decisions (R12.1).

Abstract value = (kind, dim) with kind in num / pt / curve / ptseq / numseq /
curveseq / tup / pair / box / other and dim in
   int k   : L^k (power of the unit of length)
   'Z'     : literal zero / infinity (polymorphic)
   'C'     : nonzero numeric literal or class constant (dimensionless by itself)
   None    : undetermined (counted, never reported)
Seeds: Point2D coordinates L^1, curve parameters L^0, inner/cross = sum of the
powers, abs(point) L^1, float(shape) L^2, float(jordan) L^1.  Literals reach
comparisons also through parameter defaults, class constants and call
arguments (followed interprocedurally through PARAM_DIM).
"""
from __future__ import annotations

import ast
import collections

from . import model as P

FILES = ("curve", "jordancurve", "shape", "polygon")


def num(d):
    return ("num", d)


UNK = ("other", None)
def add_dims(a, b):
    """result dim of a +/- b or comparison; returns (dim, ok)"""
    if a is None or b is None: return (None, True)
    if a == "Z": return (b, True)
    if b == "Z": return (a, True)
    if a == "C" and b == "C": return ("C", True)
    if a == "C": return (b, b == 0)
    if b == "C": return (a, a == 0)
    return (a, a == b)
def mul_dims(a, b, sign=1):
    if a is None or b is None: return None
    ka = 0 if a in ("C", "Z") else a; kb = 0 if b in ("C", "Z") else b
    if a == "Z": return "Z"
    if a == "C" and b == "C": return "C"
    return ka + sign * kb

def class_consts(M):
    out = {}   # (cls, attr) -> 'C' for class-level numeric literals
    for cname, (mod, node, bases) in M.classes.items():
        for st in node.body:
            if isinstance(st, ast.Assign) and isinstance(st.value, ast.Constant) \
                    and isinstance(st.value.value, (int, float)) and not isinstance(st.value.value, bool):
                for t in st.targets:
                    if isinstance(t, ast.Name):
                        out[(cname, t.id)] = "C" if st.value.value != 0 else "Z"
    return out

RET_DIM = {  # dims of repo functions returning numbers (by reading; units follow from the integrand)
    "__float__:JordanCurve": 1, "__float__:Box": 2, "__float__:shape": 2,
    "IntegrateShape.area": 2, "IntegrateJordan.area": 2, "IntegratePlanar.area": 2,
    "IntegrateJordan.lenght": 1, "IntegratePlanar.lenght": 1,
    "IntegrateJordan.winding_number": 0, "IntegratePlanar.winding_number": 0, "IntegratePlanar.winding_number_linear": 0,
}

class DimEngine:
    def __init__(self, ctx):
        self.ctx = ctx
        self.M = ctx.model
        self.T = ctx.typer
        self.CLASS_CONST = class_consts(self.M)
        self.PARAM_DIM = collections.defaultdict(dict)   # qname -> param -> dim joined over call sites
        self.FINDINGS = collections.OrderedDict()
        self.STATS = collections.Counter()
        self.FN_STATS = collections.defaultdict(collections.Counter)
        self.ALL = []          # every finding occurrence (q, what, a, b, lineno, text)
        for rnd in range(2):
            self.FINDINGS.clear()
            self.STATS.clear()
            self.FN_STATS.clear()
            del self.ALL[:]
            for q, fn in self.M.funcs.items():
                if fn.mod in FILES:
                    Dim(self, q).run()

    def shape_cls(self, t):
        return any(c in self.M.mro(k) for k in self.T.classes_of(t) for c in ("BaseShape",))


class Dim:
    def __init__(s, eng, q):
        s.eng = eng; M = eng.M
        s.q = q; s.fn = M.funcs[q]; s.inf = eng.T.of(s.fn); s.env = {}
        PARAM_DIM = eng.PARAM_DIM
        a = s.fn.node.args
        ps = a.posonlyargs + a.args + a.kwonlyargs
        defaults = [None] * (len(a.posonlyargs + a.args) - len(a.defaults)) + list(a.defaults) + list(a.kw_defaults)
        for p, d in zip(ps, defaults):
            t = s.inf.env.get(p.arg, P.UNK)
            if t == "Point2D": s.env[p.arg] = ("pt", 1)
            elif t in ("PlanarCurve", "BezierCurve"): s.env[p.arg] = ("curve", 1)
            elif p.arg in PARAM_DIM[q]: s.env[p.arg] = num(PARAM_DIM[q][p.arg])
            elif d is not None and isinstance(d, ast.Constant) and isinstance(d.value, (int, float)) and not isinstance(d.value, bool):
                s.env[p.arg] = num("C" if d.value != 0 else "Z")
            elif isinstance(t, tuple) and t[0] == "seq" and t[1] == "Point2D": s.env[p.arg] = ("ptseq", 1)
    def typ(s, e):
        try: return s.inf.typeof(e)
        except Exception: return P.UNK
    def report(s, node, what, a, b):
        key = (s.q, what, str(a), str(b))
        s.eng.ALL.append(key + (getattr(node, "lineno", 0), ast.unparse(node)[:80].replace("\n", " ")))
        s.eng.FINDINGS.setdefault(key, (getattr(node, "lineno", 0), ast.unparse(node)[:80].replace("\n", " ")))
    def run(s):
        if s.q == "polygon.Point2D.__init__":
            s.env["x"] = num(1); s.env["y"] = num(1)   # seed: constructor inputs are coordinates
        for _ in range(2):
            for st in s.fn.node.body: s.stmt(st, final=False)
        for st in s.fn.node.body: s.stmt(st, final=True)
    def stmt(s, st, final):
        s.final = final
        for n in ast.walk(st) if False else [st]:
            pass
        if isinstance(st, ast.Assign):
            v = s.expr(st.value)
            for t in st.targets: s.bind(t, v)
        elif isinstance(st, ast.AugAssign):
            v = s.expr(st.value); cur = s.expr(st.target)
            r = s.binop(st, st.op, cur, v)
            s.bind(st.target, r, force=True)
        elif isinstance(st, ast.For):
            it = s.expr(st.iter); s.bind(st.target, s.elem(it))
            for b in st.body + st.orelse: s.stmt(b, final)
        elif isinstance(st, (ast.While, ast.If)):
            s.expr(st.test)
            for b in st.body + st.orelse: s.stmt(b, final)
        elif isinstance(st, ast.Try):
            for b in st.body + st.orelse + st.finalbody: s.stmt(b, final)
            for h in st.handlers:
                for b in h.body: s.stmt(b, final)
        elif isinstance(st, ast.Return):
            if st.value is not None:
                v = s.expr(st.value)
                if s.__dict__.get("_closure_ret") is not None: s._closure_ret.append(v)
        elif isinstance(st, (ast.FunctionDef, ast.AsyncFunctionDef)):
            # a closure: remembered; its body is read with the dimensions of the arguments at each call (below), and
            # once here with what its annotations say, so that a closure that is only handed on is read too
            s.__dict__.setdefault("closures", {})[st.name] = st
            saved = dict(s.env)
            for p in st.args.posonlyargs + st.args.args:
                t = s.eng.T.ann_type(p.annotation)
                s.env[p.arg] = ("pt", 1) if t == "Point2D" else UNK
            for b in st.body: s.stmt(b, final)
            s.env = saved
            s.final = final
        elif isinstance(st, ast.Expr): s.expr(st.value)
        elif isinstance(st, ast.Assert): s.expr(st.test)
    def bind(s, t, v, force=False):
        if isinstance(t, ast.Name):
            old = s.env.get(t.id)
            if old is None or old[1] is None or force: s.env[t.id] = v
            elif v[0] == "num" and old[0] == "num" and v[1] is not None and old[1] != v[1]:
                d, ok = add_dims(old[1], v[1])
                if not ok and s.final: s.report(t, "merge", old[1], v[1])
        elif isinstance(t, (ast.Tuple, ast.List)):
            for i, e in enumerate(t.elts):
                if v[0] == "pair" and i < len(v[1]): s.bind(e, v[1][i], force)
                else: s.bind(e, s.elem(v), force)
    def elem(s, v):
        if v[0] in ("ptseq",): return ("pt", v[1])
        if v[0] == "pt": return num(v[1])
        if v[0] == "numseq": return num(v[1])
        if v[0] == "curveseq": return ("curve", v[1])
        if v[0] == "tupseq": return ("tup", v[1])
        if v[0] == "tup": return num(v[1]) if not isinstance(v[1], tuple) else UNK
        if v[0] == "enum": return ("pair", (num(0), s.elem(v[1])))
        if v[0] == "zip": return ("pair", tuple(s.elem(x) for x in v[1]))
        return UNK
    def binop(s, node, op, l, r):
        if isinstance(op, (ast.Add, ast.Sub)):
            if l[0] == "pt" or r[0] == "pt":
                return ("pt", l[1] if l[0] == "pt" else r[1])
            if l[0] == "num" and r[0] == "num":
                d, ok = add_dims(l[1], r[1]); s.eng.STATS["addsub"] += s.final; s.eng.FN_STATS[s.q]["addsub"] += s.final
                if not ok and s.final: s.report(node, "add/sub", l[1], r[1])
                return num(d)
            return UNK
        if isinstance(op, ast.Mult):
            if l[0] == "pt" and r[0] == "num": return ("pt", mul_dims(l[1], r[1]))
            if r[0] == "pt" and l[0] == "num": return ("pt", mul_dims(r[1], l[1]))
            if l[0] == "num" and r[0] == "num": return num(mul_dims(l[1], r[1]))
            return UNK
        if isinstance(op, (ast.Div, ast.FloorDiv)):
            if l[0] == "pt" and r[0] == "num": return ("pt", mul_dims(l[1], r[1], -1))
            if l[0] == "num" and r[0] == "num": return num(mul_dims(l[1], r[1], -1))
            return UNK
        if isinstance(op, ast.Pow):
            if l[0] == "num" and isinstance(node, ast.BinOp) and isinstance(node.right, ast.Constant) and isinstance(node.right.value, int):
                return num(None if l[1] is None else ("C" if l[1] == "C" else "Z" if l[1] == "Z" else l[1] * node.right.value))
            return num(None)
        return UNK
    def expr(s, e):
        if e is None: return UNK
        if isinstance(e, ast.Constant):
            if isinstance(e.value, bool) or not isinstance(e.value, (int, float)): return UNK
            return num("Z" if e.value == 0 else "C")
        if isinstance(e, ast.Name):
            if e.id in s.env: return s.env[e.id]
            t = s.typ(e)
            if t == "Point2D": return ("pt", 1)
            return UNK
        if isinstance(e, ast.Attribute):
            bt = s.typ(e.value); base = s.expr(e.value)
            for c in s.eng.T.classes_of(bt) or ([bt[1]] if isinstance(bt, tuple) and bt[0] == "type" else []):
                for k in s.eng.M.mro(c):
                    if (k, e.attr) in s.eng.CLASS_CONST: return num(s.eng.CLASS_CONST[(k, e.attr)])
            if base[0] == "pt" and e.attr in ("_x", "_y"): return num(base[1])
            if e.attr in ("lowpt", "toppt"): return ("pt", 1)
            if e.attr == "numerator" and base[0] == "num": return base      # n of q = n/d carries q's dimension ...
            if e.attr in ("degree", "npts", "numerator", "denominator"): return num(0)     # ... d is a pure number
            if e.attr == "ctrlpoints": return ("ptseq", base[1] if base[0] == "curve" else 1)
            if e.attr == "vertices": return ("ptseq", 1)
            if e.attr == "segments": return ("curveseq", 1)
            t = s.typ(e)
            if t == "Point2D": return ("pt", 1)
            return UNK
        if isinstance(e, ast.Subscript):
            base = s.expr(e.value); s.expr(e.slice)
            if isinstance(e.slice, ast.Slice): return base
            return s.elem(base)
        if isinstance(e, (ast.Tuple, ast.List)):
            vs = [s.expr(x) for x in e.elts]
            if vs and all(v[0] == "num" for v in vs):
                ds = {v[1] for v in vs}
                return ("tup", vs[0][1]) if len(ds) == 1 else ("tup", tuple(v[1] for v in vs))
            if vs and all(v[0] == "pt" for v in vs): return ("ptseq", vs[0][1])
            return UNK
        if isinstance(e, (ast.ListComp, ast.GeneratorExp, ast.SetComp)):
            for g in e.generators:
                s.bind(g.target, s.elem(s.expr(g.iter)), force=True)
                for c in g.ifs: s.expr(c)
            v = s.expr(e.elt)
            return {"num": ("numseq", v[1]), "pt": ("ptseq", v[1]), "curve": ("curveseq", v[1]), "tup": ("tupseq", v[1])}.get(v[0], UNK)
        if isinstance(e, ast.IfExp):
            s.expr(e.test); a = s.expr(e.body); b = s.expr(e.orelse)
            if a[0] == "num" and b[0] == "num":
                d, ok = add_dims(a[1], b[1])
                if not ok and s.final: s.report(e, "merge", a[1], b[1])
                return num(d)
            return a if a != UNK else b
        if isinstance(e, ast.BoolOp):
            for v in e.values: s.expr(v)
            return UNK
        if isinstance(e, ast.UnaryOp):
            v = s.expr(e.operand)
            return UNK if isinstance(e.op, ast.Not) else v
        if isinstance(e, ast.BinOp):
            return s.binop(e, e.op, s.expr(e.left), s.expr(e.right))
        if isinstance(e, ast.Compare):
            l = s.expr(e.left)
            for op, c in zip(e.ops, e.comparators):
                r = s.expr(c)
                if isinstance(op, (ast.Lt, ast.LtE, ast.Gt, ast.GtE, ast.Eq, ast.NotEq)) and l[0] == "num" and r[0] == "num":
                    s.eng.STATS["compare"] += s.final
                    s.eng.FN_STATS[s.q]["compare"] += s.final
                    if l[1] is None or r[1] is None: s.eng.STATS["compare_undetermined"] += s.final
                    d, ok = add_dims(l[1], r[1])
                    if not ok and s.final: s.report(e, "compare", l[1], r[1])
                l = r
            return UNK
        if isinstance(e, ast.Call): return s.call(e)
        for c in ast.iter_child_nodes(e):
            if isinstance(c, ast.expr): s.expr(c)
        return UNK
    def call(s, e):
        f = e.func; args = [s.expr(a) for a in e.args]
        for k in e.keywords: s.expr(k.value)
        if isinstance(f, ast.Name) and f.id in s.__dict__.get("closures", {}) and s.__dict__.get("_cdepth", 0) < 3 \
                and not any(isinstance(a, ast.Starred) for a in e.args):
            d = s.closures[f.id]
            ps = d.args.posonlyargs + d.args.args
            saved, saved_ret, fin = dict(s.env), s.__dict__.get("_closure_ret"), s.final
            s._cdepth = s.__dict__.get("_cdepth", 0) + 1
            s._closure_ret = []
            for p, v in zip(ps, args): s.env[p.arg] = v
            for b in d.body: s.stmt(b, fin)
            rets = s._closure_ret
            s._closure_ret, s.env, s.final = saved_ret, saved, fin
            s._cdepth -= 1
            rets = [r for r in rets if r != UNK]
            return rets[0] if rets and all(r == rets[0] for r in rets) else UNK
        # record literal/const dims flowing to callee numeric params
        for kind, tg in s.inf.by_node.get(id(e), []):
            if kind in ("call",) and isinstance(tg, list):
                for fn in tg:
                    ps = [p.arg for p in fn.node.args.posonlyargs + fn.node.args.args]
                    off = 1 if fn.kind in ("method", "class") else 0
                    for i, a in enumerate(args):
                        if i + off < len(ps) and a[0] == "num" and a[1] is not None:
                            old = s.eng.PARAM_DIM[fn.qname].get(ps[i + off])
                            s.eng.PARAM_DIM[fn.qname][ps[i + off]] = a[1] if old in (None, a[1]) else old
        name = f.id if isinstance(f, ast.Name) else f.attr if isinstance(f, ast.Attribute) else None
        if isinstance(f, ast.Name):
            a0 = args[0] if args else UNK
            t0 = s.typ(e.args[0]) if e.args else P.UNK
            if name == "abs":
                return num(a0[1]) if a0[0] in ("pt", "num") else num(1) if t0 == "Point2D" else UNK
            if name == "float":
                if t0 == "JordanCurve": return num(1)
                if t0 == "Box": return num(2)
                if s.eng.shape_cls(t0): return num(2)
                return a0 if a0[0] == "num" else num(None)
            if name == "round":
                if a0[0] == "num" and a0[1] not in (0, "C", "Z", None) and s.final: s.report(e, "round", a0[1], "C")
                return num(0)
            if name in ("min", "max"):
                d = None; first = True
                vs = args if len(args) > 1 else [s.elem(a0)]
                for v in vs:
                    if v[0] != "num": return UNK
                    if first: d = v[1]; first = False
                    else:
                        d, ok = add_dims(d, v[1])
                        if not ok and s.final: s.report(e, "min/max", d, v[1])
                return num(d)
            if name == "int": return a0 if a0[0] == "num" else num(None)
            if name == "Fraction" and len(args) == 1 and not e.keywords:
                return args[0] if args[0][0] == "num" else num(0)       # Fraction(x) is x
            if name in ("len", "Fraction", "range", "id"): return num(0)
            if name == "enumerate": return ("enum", a0)
            if name == "zip": return ("zip", tuple(args))
            if name in ("tuple", "list", "sorted", "set", "reversed"): return a0
            if name == "map" and len(e.args) == 2 and isinstance(e.args[0], ast.Name):
                inner = s.expr(ast.Call(func=e.args[0], args=[ast.Name(id="__el", ctx=ast.Load())], keywords=[])) if False else UNK
                if e.args[0].id == "float":
                    et = P.elem(s.typ(e.args[1]))
                    if s.eng.shape_cls(et): return ("numseq", 2)
                    if et == "JordanCurve": return ("numseq", 1)
                if e.args[0].id == "abs": return args[1]
                return UNK
            if name == "sum": return s.elem(a0) if a0[0] == "numseq" else num(None)
            if name in s.env and s.env[name][0] == "curve": return ("pt", s.env[name][1]) if not (args and args[0][0] in ("numseq", "tup")) else ("ptseq", s.env[name][1])
            return UNK
        if isinstance(f, ast.Attribute):
            recv = s.expr(f.value); rt = s.typ(f.value)
            if name in ("inner", "cross") and args: return num(mul_dims(recv[1] if recv[0] == "pt" else 1, args[0][1] if args[0][0] == "pt" else 1))
            if name == "norm2": return num(mul_dims(recv[1], recv[1]) if recv[0] == "pt" else 2)
            if name == "eval": return ("ptseq", recv[1] if recv[0] == "curve" else 1)
            if name == "derivate": return ("curve", recv[1] if recv[0] == "curve" else 1)
            if name == "limit_denominator":
                if recv[0] == "num" and recv[1] not in (0, None, "C", "Z") and s.final: s.report(e, "limit_denominator", recv[1], "C")
                return recv
            root = ast.unparse(f.value)
            if root == "fractions" and name == "Fraction": return args[0] if args and args[0][0] == "num" else num(0)
            if name in ("isclose", "allclose") and root in ("math", "np", "numpy") and args:
                # an absolute tolerance on a dimensional quantity is a scale-dependent decision
                kw = {k.arg: k.value for k in e.keywords}
                tol = kw.get("abs_tol", kw.get("atol"))
                tolv = None if tol is None else (tol.value if isinstance(tol, ast.Constant) else "?")
                has_abs = (tolv not in (None, 0, 0.0)) or (root != "math" and tol is None)     # numpy: atol defaults to 1e-8
                d0 = args[0][1] if args[0][0] == "num" else None
                if has_abs and d0 not in (None, 0, "C", "Z") and s.final:
                    s.report(e, "compare", d0, "C")      # |a - b| <= abs_tol is a comparison with a constant
                return UNK
            if root == "math" and name == "sqrt": return num(None if args[0][1] is None else args[0][1] if args[0][1] in ("C", "Z") else args[0][1] / 2)
            if root == "np" and name == "arctan2": return num(0)
            if root == "np" and name in ("dot", "inner") and len(args) == 2:
                def dd(v): return v[1] if v[0] in ("ptseq", "pt", "numseq", "num") else 0 if v[0] == "other" else None
                da, db = dd(args[0]), dd(args[1])
                kind = "ptseq" if ("ptseq" in (args[0][0], args[1][0]) and not (args[0][0] == "ptseq" and args[1][0] == "ptseq")) else "num"
                return (kind, mul_dims(da, db))
            if root == "np" and name in ("cos", "sin", "tan"): return num(0)
            if root in ("Math",) : return ("numseq", 0)
            key = f"{root}.{name}"
            if key in RET_DIM: return num(RET_DIM[key])
            if name in ("box",): return ("box", 1)
            if name in ("area",): return num(2)
            if name in ("winding_number",): return num(0)
            if name in ("contains_point", "contains_jordan", "contains_shape"): return UNK
            if name == "points": return ("ptseq", 1)
            if s.eng.T.classes_of(rt) and "Point2D" in s.eng.T.classes_of(rt) and name in ("move", "scale", "rotate", "__copy__"): return recv
        return UNK



def dims(ctx):
    return ctx.engine("dim", DimEngine)
