"""Structural queries shared by the rules (engine Q and friends).

All matching is on the resolved AST (callee resolution through engine T,
names followed through single assignments), never on source text or positions.
"""
from __future__ import annotations

import ast

U = ast.unparse


def parents_of(root):
    par = {}
    for p in ast.walk(root):
        for c in ast.iter_child_nodes(p):
            par[id(c)] = p
    return par


def const_bool(e):
    return e.value if isinstance(e, ast.Constant) and isinstance(e.value, bool) else None


def is_name(e, name):
    return isinstance(e, ast.Name) and e.id == name


def root_name(e):
    while isinstance(e, (ast.Attribute, ast.Subscript, ast.Call, ast.Starred)):
        e = e.func if isinstance(e, ast.Call) else e.value
    return e.id if isinstance(e, ast.Name) else None


def local_defs(fn):
    """name -> list of value expressions assigned to it anywhere in the function (simple Name targets,
    pairwise tuple unpacking); loop/comprehension targets map to ('elem', iter expr)"""
    d = {}
    for n in ast.walk(fn.node):
        if isinstance(n, ast.Assign):
            for t in n.targets:
                if isinstance(t, ast.Name):
                    d.setdefault(t.id, []).append(n.value)
                elif isinstance(t, (ast.Tuple, ast.List)) and isinstance(n.value, (ast.Tuple, ast.List)) \
                        and len(t.elts) == len(n.value.elts):
                    for a, b in zip(t.elts, n.value.elts):
                        if isinstance(a, ast.Name):
                            d.setdefault(a.id, []).append(b)
                elif isinstance(t, (ast.Tuple, ast.List)):
                    for i, a in enumerate(t.elts):
                        if isinstance(a, ast.Name):
                            d.setdefault(a.id, []).append(("unpack", i, n.value))
        elif isinstance(n, ast.AugAssign) and isinstance(n.target, ast.Name):
            d.setdefault(n.target.id, []).append(("aug", n.op, n.value))
        elif isinstance(n, ast.NamedExpr) and isinstance(n.target, ast.Name):
            d.setdefault(n.target.id, []).append(n.value)              # (n := len(xs))
        elif isinstance(n, ast.AnnAssign) and isinstance(n.target, ast.Name) and n.value is not None:
            d.setdefault(n.target.id, []).append(n.value)
        elif isinstance(n, (ast.For, ast.comprehension)):
            _bind_elem(d, n.target, n.iter)
    return d


def _bind_elem(d, target, it, idx=None):
    if isinstance(target, ast.Name):
        d.setdefault(target.id, []).append(("elem", it, idx))
    elif isinstance(target, (ast.Tuple, ast.List)):
        for i, a in enumerate(target.elts):
            _bind_elem(d, a, it, i if idx is None else idx)


def param_origin(fn, e, defs=None, depth=0, visiting=frozenset(), scaled_ok=False):
    """if expression e denotes (a validated copy of) a parameter, its name; else None.
    Follows x = Point2D(x) / Point2D(*x) / float(x) / copy(x) / tuple(x) / list(x) rebinding and
    single-definition local names."""
    defs = defs if defs is not None else local_defs(fn)
    if depth > 8:
        return None
    if isinstance(e, ast.Starred):
        return param_origin(fn, e.value, defs, depth + 1, visiting, scaled_ok)
    if isinstance(e, ast.Name):
        vals = [v for v in defs.get(e.id, []) if not isinstance(v, tuple)]
        others = [v for v in defs.get(e.id, []) if isinstance(v, tuple)]
        if e.id in fn.params:
            if e.id in visiting:
                return e.id
            # every rebinding must keep the origin
            for v in vals:
                if param_origin(fn, v, defs, depth + 1, visiting | {e.id}, scaled_ok) != e.id:
                    return None
            for v in others:
                if v[0] != "aug":
                    return None
            return e.id
        if e.id in visiting:
            return None
        if len(vals) == 1 and not others:
            return param_origin(fn, vals[0], defs, depth + 1, visiting | {e.id}, scaled_ok)
        return None
    if isinstance(e, ast.Call) and isinstance(e.func, ast.Name) and e.func.id in (
            "Point2D", "float", "copy", "tuple", "list", "int", "Fraction") and len(e.args) == 1 and not e.keywords:
        return param_origin(fn, e.args[0], defs, depth + 1, visiting, scaled_ok)
    if scaled_ok:
        # unit conversions: p * const, p / const, math.radians(p) ...
        if isinstance(e, ast.BinOp) and isinstance(e.op, (ast.Mult, ast.Div)):
            if const_value(e.right) is not None:
                return param_origin(fn, e.left, defs, depth + 1, visiting, scaled_ok)
            if const_value(e.left) is not None and isinstance(e.op, ast.Mult):
                return param_origin(fn, e.right, defs, depth + 1, visiting, scaled_ok)
        if isinstance(e, ast.Call) and U(e.func) in ("math.radians", "np.deg2rad", "np.radians", "numpy.deg2rad") \
                and len(e.args) == 1:
            return param_origin(fn, e.args[0], defs, depth + 1, visiting, scaled_ok)
    return None


def getter_of(inf, e):
    """qnames of the property getters an Attribute expression resolves to"""
    return sorted({t.qname for t in inf.targets(e, ("getter",))})


def call_targets(inf, node):
    return sorted({t.qname for t in inf.targets(node)})


class Loop:
    """`for target in iter` (statement or comprehension generator)"""

    def __init__(self, node, target, it, body, kind, cond=None):
        self.node, self.target, self.iter, self.body, self.kind, self.cond = node, target, it, body, kind, cond

    @property
    def var(self):
        return self.target.id if isinstance(self.target, ast.Name) else None


def loops(fn):
    """all loops of the function: For statements and comprehension generators, map(f, C)"""
    out = []
    for n in ast.walk(fn.node):
        if isinstance(n, ast.For):
            out.append(Loop(n, n.target, n.iter, n.body, "for"))
        elif isinstance(n, (ast.GeneratorExp, ast.ListComp, ast.SetComp)):
            for g in n.generators:
                out.append(Loop(n, g.target, g.iter, [n.elt], "comp", g.ifs))
        elif isinstance(n, ast.Call) and isinstance(n.func, ast.Name) and n.func.id == "map" and len(n.args) == 2:
            f = n.args[0]
            if isinstance(f, ast.Lambda) and len(f.args.args) == 1:
                out.append(Loop(n, ast.Name(id=f.args.args[0].arg, ctx=ast.Store()), n.args[1], [f.body], "map"))
            else:
                out.append(Loop(n, None, n.args[1], [n.args[0]], "map"))
    return out


def has_early_exit(loop):
    """a For loop that may skip elements (break / continue / return / conditional body)"""
    if loop.kind == "comp":
        return bool(loop.cond)
    if loop.kind == "map":
        return False
    for b in loop.body:
        for x in ast.walk(b):
            if isinstance(x, (ast.Break, ast.Continue, ast.Return)):
                return True
    return False


def unconditional_stmts(loop):
    """statements of the loop body executed for every element (top level of the body)"""
    if loop.kind != "for":
        return loop.body
    return [b for b in loop.body if not isinstance(b, (ast.If, ast.Try, ast.While, ast.For))]


# ---------------------------------------------------------------------------
# quantifier loops

class Quant:
    def __init__(self, kind, loop_iter, var, pred, negated, node, where="loop"):
        self.kind = kind          # 'forall' | 'exists'
        self.iter = loop_iter     # expression node of the collection
        self.var = var
        self.pred = pred          # predicate expression node (positive form)
        self.negated = negated    # predicate is negated inside the quantifier
        self.node = node
        self.where = where


def _strip_not(test):
    neg = False
    while isinstance(test, ast.UnaryOp) and isinstance(test.op, ast.Not):
        test, neg = test.operand, not neg
    if isinstance(test, ast.Compare) and len(test.ops) == 1 and isinstance(test.ops[0], ast.NotIn):
        test = ast.copy_location(ast.Compare(left=test.left, ops=[ast.In()], comparators=test.comparators), test)
        neg = not neg
    return test, neg


def quantifiers(fn):
    """recognised forms
         for x in C: [pre;] if T: return c1        followed by   return c2      (c1 != c2 booleans)
         all(T for x in C) / any(T for x in C)  [possibly under `not`]
       result: Quant(kind, C, x, P, negated) meaning  kind x in C : (not)? P(x)  is the returned truth value
    """
    out = []

    def scan(body):
        for i, st in enumerate(body):
            if isinstance(st, ast.For) and not st.orelse:
                exits = [b for b in st.body if isinstance(b, ast.If) and len(b.body) == 1
                         and isinstance(b.body[0], ast.Return) and not b.orelse]
                nxt = body[i + 1] if i + 1 < len(body) else None
                if len(exits) == 1 and isinstance(nxt, ast.Return):
                    c1, c2 = const_bool(exits[0].body[0].value), const_bool(nxt.value)
                    if c1 is not None and c2 is not None and c1 != c2:
                        test, neg = _strip_not(exits[0].test)
                        # exit True on T   : exists x: T       exit False on T : forall x: not T
                        if c1 is True:
                            kind, negated = "exists", neg
                        else:
                            kind, negated = "forall", not neg
                        out.append(Quant(kind, st.iter, st.target, test, negated, st))
            for fld in ("body", "orelse", "finalbody"):
                sub = getattr(st, fld, None)
                if isinstance(sub, list) and sub and isinstance(sub[0], ast.stmt):
                    scan(sub)
            if isinstance(st, ast.Try):
                for h in st.handlers:
                    scan(h.body)

    scan(fn.node.body)
    par = parents_of(fn.node)
    for n in ast.walk(fn.node):
        if isinstance(n, ast.Call) and isinstance(n.func, ast.Name) and n.func.id in ("all", "any") and n.args \
                and isinstance(n.args[0], (ast.GeneratorExp, ast.ListComp)) and len(n.args[0].generators) == 1 \
                and not n.args[0].generators[0].ifs:
            g = n.args[0]
            test, neg = _strip_not(g.elt)
            kind = "forall" if n.func.id == "all" else "exists"
            # an enclosing `not` flips the quantifier
            p = par.get(id(n))
            if isinstance(p, ast.UnaryOp) and isinstance(p.op, ast.Not):
                kind = "exists" if kind == "forall" else "forall"
                neg = not neg
            out.append(Quant(kind, g.generators[0].iter, g.generators[0].target, test, neg, n, "comprehension"))
    return out


# ---------------------------------------------------------------------------
# constant folding of small numeric expressions (math / numpy constants)

import math  # noqa: E402

CONSTS = {"np.pi": math.pi, "math.pi": math.pi, "numpy.pi": math.pi, "math.tau": math.tau, "np.tau": math.tau,
          "math.e": math.e, "math.inf": math.inf, "np.inf": math.inf, "numpy.inf": math.inf, "np.e": math.e}


# module-level numeric constants of the module under analysis (`_TOL = 1e-6`): set by an engine while it scans one
# function (see module_consts), so that a named constant is read like the literal it stands for
MODULE_CONSTS = {}


def module_consts(tree):
    """{name: number} for module-level names assigned exactly once, to a numeric constant expression"""
    seen, out = {}, {}
    for st in getattr(tree, "body", []):
        tg = None
        if isinstance(st, ast.Assign) and len(st.targets) == 1 and isinstance(st.targets[0], ast.Name):
            tg, val = st.targets[0].id, st.value
        elif isinstance(st, ast.AnnAssign) and isinstance(st.target, ast.Name) and st.value is not None:
            tg, val = st.target.id, st.value
        if tg:
            seen[tg] = seen.get(tg, 0) + 1
            saved = dict(MODULE_CONSTS)
            MODULE_CONSTS.clear()
            v = const_value(val)
            MODULE_CONSTS.update(saved)
            if v is not None:
                out[tg] = v
    return {k: v for k, v in out.items() if seen.get(k) == 1}


def const_value(e):
    """numeric value of a constant expression or None"""
    if isinstance(e, ast.Constant) and isinstance(e.value, (int, float)) and not isinstance(e.value, bool):
        return e.value
    if isinstance(e, ast.Name) and e.id in MODULE_CONSTS:
        return MODULE_CONSTS[e.id]
    if isinstance(e, ast.Attribute) and U(e) in CONSTS:
        return CONSTS[U(e)]
    if isinstance(e, ast.UnaryOp) and isinstance(e.op, (ast.USub, ast.UAdd)):
        v = const_value(e.operand)
        return None if v is None else (-v if isinstance(e.op, ast.USub) else v)
    if isinstance(e, ast.BinOp):
        l, r = const_value(e.left), const_value(e.right)
        if l is None or r is None:
            return None
        try:
            if isinstance(e.op, ast.Add):
                return l + r
            if isinstance(e.op, ast.Sub):
                return l - r
            if isinstance(e.op, ast.Mult):
                return l * r
            if isinstance(e.op, ast.Div):
                return l / r
            if isinstance(e.op, ast.Pow):
                return l ** r
            if isinstance(e.op, ast.FloorDiv):
                return l // r
        except (ZeroDivisionError, OverflowError):
            return None
    return None


# ---------------------------------------------------------------------------------------------------------------------
class _MatchDesugar(ast.NodeTransformer):
    """`match` statements whose patterns are class patterns without sub-patterns, or-patterns, literals, None and the
    wildcard (optionally `as name`) are the same as an if / elif chain of isinstance / == / `is` tests; they are rewritten
    once, right after parsing, so that every engine sees statement kinds it already knows.  Other patterns (sequences,
    mappings, class patterns with sub-patterns) are left alone and stay `undecided` wherever they matter."""

    def __init__(self):
        self.n = 0

    def _test(self, pat_, subj, binds):
        if isinstance(pat_, ast.MatchClass) and not pat_.patterns and not pat_.kwd_patterns:
            return ast.Call(func=ast.Name(id="isinstance", ctx=ast.Load()), args=[subj(), pat_.cls], keywords=[])
        if isinstance(pat_, ast.MatchOr):
            parts = [self._test(p, subj, binds) for p in pat_.patterns]
            return None if any(p is None for p in parts) else ast.BoolOp(op=ast.Or(), values=parts)
        if isinstance(pat_, ast.MatchSingleton):
            return ast.Compare(left=subj(), ops=[ast.Is()], comparators=[ast.Constant(value=pat_.value)])
        if isinstance(pat_, ast.MatchValue):
            return ast.Compare(left=subj(), ops=[ast.Eq()], comparators=[pat_.value])
        if isinstance(pat_, ast.MatchAs):
            t = ast.Constant(value=True) if pat_.pattern is None else self._test(pat_.pattern, subj, binds)
            if t is not None and pat_.name is not None:
                binds.append(pat_.name)
            return t
        return None

    def visit_Match(self, node):
        self.generic_visit(node)
        pre = []
        if isinstance(node.subject, ast.Name):
            name = node.subject.id
        else:
            self.n += 1
            name = f"_match_subject_{self.n}"
            pre.append(ast.Assign(targets=[ast.Name(id=name, ctx=ast.Store())], value=node.subject))

        def subj():
            return ast.Name(id=name, ctx=ast.Load())
        chain = []
        for case in node.cases:
            binds = []
            t = self._test(case.pattern, subj, binds)
            if t is None or (case.guard is not None and binds):
                return node
            if case.guard is not None:
                t = ast.BoolOp(op=ast.And(), values=[t, case.guard])
            body = [ast.Assign(targets=[ast.Name(id=b, ctx=ast.Store())], value=subj()) for b in binds] + list(case.body)
            chain.append((t, body))
        top = None
        for t, body in reversed(chain):
            if isinstance(t, ast.Constant) and t.value is True and top is None:
                top = body                          # trailing wildcard = else branch
                continue
            top = [ast.If(test=t, body=body, orelse=top if isinstance(top, list) else [])]
        out = pre + (top or [])
        for st in out:
            ast.copy_location(st, node)
            ast.fix_missing_locations(st)
        return out


class _TypeCall(ast.NodeTransformer):
    """type(x) with one argument is x.__class__ (no class of the library overrides __class__)"""

    def visit_Call(self, node):
        self.generic_visit(node)
        if isinstance(node.func, ast.Name) and node.func.id == "type" and len(node.args) == 1 and not node.keywords \
                and not isinstance(node.args[0], ast.Starred):
            return ast.copy_location(ast.Attribute(value=node.args[0], attr="__class__", ctx=ast.Load()), node)
        return node


CANON_MODULES = {"numpy": "np", "math": "math", "operator": "operator", "functools": "functools", "itertools": "itertools",
                 "contextlib": "contextlib"}


class _ImportCanon(ast.NodeTransformer):
    """`from numpy import dot` / `from math import tau` / `import numpy as N`: the names are rewritten to the qualified
    spelling the engines know (np.dot, math.tau), wherever they are not shadowed by a parameter or a local assignment"""

    def __init__(self, tree):
        self.direct, self.modalias = {}, {}
        for st in tree.body:
            if isinstance(st, ast.ImportFrom) and st.module in CANON_MODULES and st.level == 0:
                for a in st.names:
                    if a.name != "*":
                        self.direct[a.asname or a.name] = (CANON_MODULES[st.module], a.name)
            if isinstance(st, ast.Import):
                for a in st.names:
                    if a.name in CANON_MODULES and (a.asname or a.name) != CANON_MODULES[a.name]:
                        self.modalias[a.asname or a.name] = CANON_MODULES[a.name]
        self.fractions = {a.asname or a.name for st in tree.body if isinstance(st, ast.Import) for a in st.names
                          if a.name == "fractions"}
        self.shadow = [set()]

    def _locals(self, fn):
        out = {a.arg for a in fn.args.posonlyargs + fn.args.args + fn.args.kwonlyargs}
        if fn.args.vararg:
            out.add(fn.args.vararg.arg)
        if fn.args.kwarg:
            out.add(fn.args.kwarg.arg)
        for n in ast.walk(fn):
            if isinstance(n, ast.Name) and isinstance(n.ctx, ast.Store):
                out.add(n.id)
        return out

    def visit_FunctionDef(self, node):
        self.shadow.append(self._locals(node))
        self.generic_visit(node)
        self.shadow.pop()
        return node

    visit_AsyncFunctionDef = visit_FunctionDef

    def visit_Attribute(self, node):
        self.generic_visit(node)
        if isinstance(node.value, ast.Name) and node.value.id in self.fractions and node.attr == "Fraction" \
                and not any(node.value.id in sh for sh in self.shadow):
            return ast.copy_location(ast.Name(id="Fraction", ctx=node.ctx), node)
        return node

    def visit_Name(self, node):
        if isinstance(node.ctx, ast.Load) and not any(node.id in sh for sh in self.shadow):
            if node.id in self.direct:
                mod, name = self.direct[node.id]
                return ast.copy_location(ast.Attribute(value=ast.Name(id=mod, ctx=ast.Load()), attr=name, ctx=ast.Load()), node)
            if node.id in self.modalias:
                return ast.copy_location(ast.Name(id=self.modalias[node.id], ctx=ast.Load()), node)
        return node


class _AliasInline(ast.NodeTransformer):
    """aliases of methods are read through: a module-level `name = Class.method`, and inside a function
    `name = obj.method` (assigned once, `obj` a parameter or a local assigned once, `name` only ever called) -- the
    calls `name(...)` become `Class.method(...)` / `obj.method(...)`, the alias assignment stays"""

    def __init__(self, tree):
        classes = {st.name for st in tree.body if isinstance(st, ast.ClassDef)}
        for st in tree.body:
            if isinstance(st, ast.ImportFrom):
                classes |= {a.asname or a.name for a in st.names if (a.asname or a.name)[:1].isupper()}
        self.module_alias = {}
        for st in tree.body:
            if isinstance(st, ast.Assign) and len(st.targets) == 1 and isinstance(st.targets[0], ast.Name) \
                    and isinstance(st.value, ast.Attribute) and isinstance(st.value.value, ast.Name) and st.value.value.id in classes:
                self.module_alias[st.targets[0].id] = st.value
        self.local = [{}]
        self.values = [{}]
        self.classes = classes

    def visit_Name(self, node):
        if isinstance(node.ctx, ast.Load) and node.id in self.values[-1]:
            import copy as _copy
            return ast.copy_location(_copy.deepcopy(self.values[-1][node.id]), node)
        return node

    @staticmethod
    def _root(e):
        while isinstance(e, ast.Attribute):
            e = e.value
        return e.id if isinstance(e, ast.Name) else None

    def visit_FunctionDef(self, node):
        import copy as _copy
        stores = {}
        for n in ast.walk(node):
            if isinstance(n, ast.Name) and isinstance(n.ctx, (ast.Store, ast.Del)):
                stores[n.id] = stores.get(n.id, 0) + 1
            if isinstance(n, (ast.For, ast.comprehension)):
                for t in ast.walk(n.target):
                    if isinstance(t, ast.Name):
                        stores[t.id] = stores.get(t.id, 0) + 1     # rebound at every iteration
        params = {a.arg for a in node.args.posonlyargs + node.args.args + node.args.kwonlyargs}
        if node.args.vararg:
            params.add(node.args.vararg.arg)
        if node.args.kwarg:
            params.add(node.args.kwarg.arg)
        # candidate aliases: every assignment to the name is `name = <same attribute expression>`
        assigns = {}
        for n in ast.walk(node):
            if isinstance(n, ast.Assign) and len(n.targets) == 1 and isinstance(n.targets[0], ast.Name):
                assigns.setdefault(n.targets[0].id, []).append(n)
        cand = {}
        for name, sts in assigns.items():
            if name in params or stores.get(name) != len(sts):
                continue
            if all(isinstance(st.value, ast.Name) and st.value.id not in stores and st.value.id not in params
                   and st.value.id != name for st in sts) and len({st.value.id for st in sts}) == 1:
                cand[name] = sts           # `fraction = Fraction`: another name for a global
                continue
            if not all(isinstance(st.value, ast.Attribute) for st in sts):
                continue
            if len({ast.dump(st.value) for st in sts}) != 1:
                continue
            root = self._root(sts[0].value)
            if root is None:
                continue
            if stores.get(root, 0) > (0 if root in params else 1):
                # the root may be rebound once everything is over: after the last call, outside every loop
                last_call = max((getattr(n, "end_lineno", n.lineno) for n in ast.walk(node) if isinstance(n, ast.Call)
                                 and isinstance(n.func, ast.Name) and n.func.id == name), default=None)
                first_alias = min(st.lineno for st in sts)
                inloop = set()
                for lp in ast.walk(node):
                    if isinstance(lp, (ast.For, ast.While, ast.AsyncFor)):
                        inloop |= {id(x) for x in ast.walk(lp)}
                ok = last_call is not None
                early = 0
                for n in ast.walk(node):
                    if isinstance(n, ast.Name) and isinstance(n.ctx, (ast.Store, ast.Del)) and n.id == root:
                        if n.lineno < first_alias and id(n) not in inloop:
                            early += 1
                        elif not (ok and n.lineno > last_call and id(n) not in inloop):
                            ok = False
                if not ok or early > (0 if root in params else 1):
                    continue
            cand[name] = sts
        # every use is the function of a call, and every call follows an assignment in the same or an enclosing block
        uses, calls = {}, {}
        for n in ast.walk(node):
            if isinstance(n, ast.Name) and isinstance(n.ctx, ast.Load) and n.id in cand:
                uses[n.id] = uses.get(n.id, 0) + 1
            if isinstance(n, ast.Call) and isinstance(n.func, ast.Name) and n.func.id in cand:
                calls.setdefault(n.func.id, []).append(n)
        covered = {k: set() for k in cand}

        def blocks(st):
            for f in ("body", "orelse", "finalbody"):
                b = getattr(st, f, None)
                if isinstance(b, list) and b and isinstance(b[0], ast.stmt):
                    yield b
            for h in getattr(st, "handlers", []):
                yield h.body

        def scan(block):
            for i, st in enumerate(block):
                if isinstance(st, ast.Assign) and len(st.targets) == 1 and isinstance(st.targets[0], ast.Name) \
                        and st.targets[0].id in cand:
                    for later in block[i + 1:]:
                        for n in ast.walk(later):
                            if isinstance(n, ast.Call) and isinstance(n.func, ast.Name) and n.func.id == st.targets[0].id:
                                covered[st.targets[0].id].add(id(n))
                if not isinstance(st, (ast.FunctionDef, ast.AsyncFunctionDef, ast.ClassDef)):
                    for b in blocks(st):
                        scan(b)
        scan(node.body)
        local = {}
        for k, sts in cand.items():
            cs = calls.get(k, [])
            if cs and uses.get(k, 0) == len(cs) and all(id(c) in covered[k] for c in cs):
                local[k] = sts[0].value
        # `name = Class.attr` (a class of this module, assigned once, the attribute never rebound here): every read of
        # `name` is a read of `Class.attr`
        values = {}
        rebound = {ast.dump(t) for n in ast.walk(node) if isinstance(n, (ast.Assign, ast.AugAssign, ast.AnnAssign))
                   for t in (n.targets if isinstance(n, ast.Assign) else [n.target]) if isinstance(t, ast.Attribute)}
        for k, sts in cand.items():
            v = sts[0].value
            if k not in local and len(sts) == 1 and isinstance(v, ast.Attribute) and isinstance(v.value, ast.Name) and v.value.id in self.classes \
                    and v.value.id not in stores and v.value.id not in params and sts[0] in node.body:
                probe = ast.Attribute(value=v.value, attr=v.attr, ctx=ast.Store())
                if ast.dump(probe) not in rebound:
                    values[k] = v
        shadowed = set(stores) | params
        self.local.append((local, shadowed))
        self.values.append(values)
        self.generic_visit(node)
        self.values.pop()
        self.local.pop()
        if values:
            local = dict(local)
            local.update(values)
        if local:                          # the alias assignments are now dead
            drop = {id(st) for k in local for st in cand[k]}

            class _Drop(ast.NodeTransformer):
                def visit_Assign(s, st):
                    return ast.copy_location(ast.Pass(), st) if id(st) in drop else st
            node = _Drop().visit(node)
        return node

    visit_AsyncFunctionDef = visit_FunctionDef

    def visit_Call(self, node):
        self.generic_visit(node)
        if isinstance(node.func, ast.Name):
            import copy as _copy
            for frame in reversed(self.local[1:]):
                local, shadowed = frame
                if node.func.id in local:
                    node.func = ast.copy_location(_copy.deepcopy(local[node.func.id]), node.func)
                    return node
                if node.func.id in shadowed:
                    return node
            if node.func.id in self.module_alias:
                node.func = ast.copy_location(_copy.deepcopy(self.module_alias[node.func.id]), node.func)
        return node


class _AssertForm(ast.NodeTransformer):
    """`if not cond: raise AssertionError(msg)` is the statement `assert cond, msg` written out"""

    def visit_If(self, node):
        self.generic_visit(node)
        if not node.orelse and len(node.body) == 1 and isinstance(node.body[0], ast.Raise) and node.body[0].cause is None:
            exc = node.body[0].exc
            name = exc.func if isinstance(exc, ast.Call) else exc
            if isinstance(name, ast.Name) and name.id == "AssertionError" \
                    and (not isinstance(exc, ast.Call) or (len(exc.args) <= 1 and not exc.keywords)):
                test = node.test
                if isinstance(test, ast.UnaryOp) and isinstance(test.op, ast.Not):
                    test = test.operand
                else:
                    test = ast.UnaryOp(op=ast.Not(), operand=test)
                msg = exc.args[0] if isinstance(exc, ast.Call) and exc.args else None
                return ast.copy_location(ast.Assert(test=test, msg=msg), node)
        return node


class _SuppressForm(ast.NodeTransformer):
    """`with contextlib.suppress(E, ..): body`  is  `try: body / except (E, ..): pass`"""

    def visit_With(self, node):
        self.generic_visit(node)
        if len(node.items) == 1 and node.items[0].optional_vars is None:
            c = node.items[0].context_expr
            if isinstance(c, ast.Call) and isinstance(c.func, ast.Attribute) and c.func.attr == "suppress" \
                    and isinstance(c.func.value, ast.Name) and c.func.value.id == "contextlib" and c.args and not c.keywords \
                    and not any(isinstance(a, ast.Starred) for a in c.args):
                typ = c.args[0] if len(c.args) == 1 else ast.Tuple(elts=list(c.args), ctx=ast.Load())
                handler = ast.ExceptHandler(type=typ, name=None, body=[ast.Pass()])
                new = ast.Try(body=node.body, handlers=[handler], orelse=[], finalbody=[])
                return ast.fix_missing_locations(ast.copy_location(new, node))
        return node


def private_fields_of(tree):
    """class -> its private fields in the order of their first store through the receiver parameter"""
    out = {}
    for c in tree.body:
        if isinstance(c, ast.ClassDef):
            names = []
            for f in c.body:
                if isinstance(f, ast.FunctionDef) and f.args.args:
                    selfn = f.args.args[0].arg
                    for n in ast.walk(f):
                        if isinstance(n, (ast.Assign, ast.AugAssign, ast.AnnAssign)):
                            for tg in (n.targets if isinstance(n, ast.Assign) else [n.target]):
                                for a in ast.walk(tg):
                                    if isinstance(a, ast.Attribute) and isinstance(a.value, ast.Name) and a.value.id == selfn \
                                            and a.attr.startswith("_") and not a.attr.endswith("__") and a.attr not in names:
                                        names.append(a.attr)
            if names:
                out[c.name] = names
    return out


def private_methods_of(tree):
    """class -> {mangled-private method name: (number of parameters, names of the methods of the class that call it)}"""
    out = {}
    for c in tree.body:
        if not isinstance(c, ast.ClassDef):
            continue
        defs = {f.name: f for f in c.body if isinstance(f, ast.FunctionDef)}
        priv = {n: f for n, f in defs.items() if n.startswith("__") and not n.endswith("__")}
        if not priv:
            continue
        info = {}
        for n, f in priv.items():
            callers = sorted(g.name for g in defs.values() if g is not f and any(
                isinstance(x, ast.Attribute) and x.attr == n for x in ast.walk(g)))
            a = f.args
            info[n] = (len(a.posonlyargs + a.args), callers)
        out[c.name] = info
    return out


def private_method_renames(trees):
    """a name-mangled private method that was merely renamed gets its old name back (the rules anchor on it and stub it by
    name): the class lacks a private method of the baseline and has exactly one new private method with the same number
    of parameters that is called from the same methods"""
    from .known_names import PRIVATE_METHODS
    now = {}
    for t in trees:
        now.update(private_methods_of(t))
    out = {}
    for cls, base in PRIVATE_METHODS.items():
        cur = now.get(cls, {})
        missing = [n for n in base if n not in cur]
        fresh = [n for n in cur if n not in base]
        for old in missing:
            cands = [n for n in fresh if cur[n][0] == base[old][0] and cur[n][1] == base[old][1]]
            if len(cands) == 1 and sum(1 for o in missing if base[o] == base[old]) == 1:
                out.setdefault(cls, {})[cands[0]] = old
    return out


def private_field_renames(trees):
    """a private field that was merely renamed gets its old name back (the stand-in worlds of the rules spell it): a class
    of the baseline with the same number of private fields, in the same order of first store, some under new names.
    Returns (per-class map for name-mangled fields, global map for single-underscore fields)."""
    from .known_names import FIELDS
    now = {}
    for t in trees:
        now.update(private_fields_of(t))
    mangled, plain = {}, {}
    every_now = {n for ns in now.values() for n in ns}
    for cls, base in FIELDS.items():
        cur = now.get(cls)
        if not cur or len(cur) != len(base) or cur == base:
            continue
        if set(cur) & set(base) != {a for a, b in zip(cur, base) if a == b}:
            continue                       # a kept name moved: not a plain renaming
        for a, b in zip(cur, base):
            if a == b:
                continue
            if a.startswith("__"):
                mangled.setdefault(cls, {})[a] = b
            elif sum(1 for ns in now.values() if a in ns) == 1 and b not in every_now:
                plain[a] = b
    for cls, m in private_method_renames(trees).items():
        mangled.setdefault(cls, {}).update(m)
    return mangled, plain


class _FieldRename(ast.NodeTransformer):
    def __init__(self, mangled, plain):
        self.mangled, self.plain, self.cls = mangled, plain, None

    def visit_ClassDef(self, node):
        saved, self.cls = self.cls, node.name
        self.generic_visit(node)
        self.cls = saved
        return node

    def visit_FunctionDef(self, node):
        m = self.mangled.get(self.cls, {})
        if node.name in m:
            node.name = m[node.name]
        self.generic_visit(node)
        return node

    def visit_Attribute(self, node):
        self.generic_visit(node)
        m = self.mangled.get(self.cls, {})
        if node.attr in m:
            node.attr = m[node.attr]
        elif node.attr in self.plain:
            node.attr = self.plain[node.attr]
        return node


class _ModuleConstants(ast.NodeTransformer):
    """a module-level name bound once to an immutable constant expression (a number, `10**9`, `Fraction(1, 2)`, a string,
    a tuple of such or of type names) is read through at its uses inside functions and class bodies: `TOL = 1e-6 ...
    abs(d) < TOL` is `abs(d) < 1e-6`.  (Magic numbers given names; the rules read literals.)"""

    TYPE_NAMES = {"int", "float", "str", "bool", "bytes", "complex", "tuple", "list", "Fraction", "Decimal", "Real", "Number",
                  "Rational", "Integral"}

    def __init__(self, tree):
        stores = {}
        for n in ast.walk(tree):
            if isinstance(n, ast.Name) and isinstance(n.ctx, (ast.Store, ast.Del)):
                stores[n.id] = stores.get(n.id, 0) + 1
            if isinstance(n, (ast.Global, ast.Nonlocal)):
                for nm in n.names:
                    stores[nm] = stores.get(nm, 0) + 2
            if isinstance(n, (ast.FunctionDef, ast.AsyncFunctionDef, ast.ClassDef)):
                stores[n.name] = stores.get(n.name, 0) + 2
            if isinstance(n, ast.arg):
                pass
        self.consts = {}
        for st in tree.body:
            if isinstance(st, (ast.Assign, ast.AnnAssign)) and getattr(st, "value", None) is not None:
                tgts = st.targets if isinstance(st, ast.Assign) else [st.target]
                if len(tgts) == 1 and isinstance(tgts[0], ast.Name) and stores.get(tgts[0].id) == 1 \
                        and self._constant(st.value):
                    self.consts[tgts[0].id] = st.value
        self.shadow = [set()]
        self.depth = 0

    def _constant(self, e):
        if isinstance(e, ast.Constant):
            return not isinstance(e.value, (bytes,)) or True
        if isinstance(e, ast.UnaryOp) and isinstance(e.op, (ast.USub, ast.UAdd)):
            return self._constant(e.operand)
        if isinstance(e, ast.BinOp) and isinstance(e.op, (ast.Add, ast.Sub, ast.Mult, ast.Div, ast.Pow, ast.FloorDiv)):
            return self._constant(e.left) and self._constant(e.right)
        if isinstance(e, ast.Call) and isinstance(e.func, ast.Name) and e.func.id in ("Fraction", "float", "int") and not e.keywords:
            return all(self._constant(a) for a in e.args)
        if isinstance(e, ast.Tuple):
            return all(self._constant(x) or (isinstance(x, ast.Name) and x.id in self.TYPE_NAMES) for x in e.elts)
        if isinstance(e, ast.Name):
            return e.id in getattr(self, "consts", {})
        if isinstance(e, ast.Attribute) and isinstance(e.value, ast.Name) and e.value.id in ("math", "np") \
                and e.attr in ("pi", "tau", "e", "inf"):
            return True
        return False

    def _scope(self, node):
        local = {a.arg for a in node.args.posonlyargs + node.args.args + node.args.kwonlyargs}
        if node.args.vararg:
            local.add(node.args.vararg.arg)
        if node.args.kwarg:
            local.add(node.args.kwarg.arg)
        local |= {n.id for n in ast.walk(node) if isinstance(n, ast.Name) and isinstance(n.ctx, (ast.Store, ast.Del))}
        return local

    def visit_FunctionDef(self, node):
        self.shadow.append(self._scope(node))
        self.depth += 1
        self.generic_visit(node)
        self.depth -= 1
        self.shadow.pop()
        return node

    visit_AsyncFunctionDef = visit_FunctionDef

    def visit_Lambda(self, node):
        self.shadow.append({a.arg for a in node.args.posonlyargs + node.args.args + node.args.kwonlyargs})
        self.generic_visit(node)
        self.shadow.pop()
        return node

    def visit_ClassDef(self, node):
        self.depth += 1
        self.generic_visit(node)
        self.depth -= 1
        return node

    def visit_Name(self, node):
        if self.depth and isinstance(node.ctx, ast.Load) and node.id in self.consts \
                and not any(node.id in sh for sh in self.shadow):
            import copy as _copy
            v = _copy.deepcopy(self.consts[node.id])
            # constants defined through other constants
            return ast.copy_location(self.visit(v) if isinstance(v, (ast.Name, ast.BinOp, ast.Tuple, ast.UnaryOp, ast.Call)) else v, node)
        return node


NORMALISER_NOTES = []


class _NamedConditions(ast.NodeTransformer):
    """`flag = <condition>` immediately followed by the one statement that reads `flag`, as (the first thing evaluated in)
    its test: the condition is written back where it is tested

        needs_computation = self.__lenght is None          if self.__lenght is None:
        if needs_computation:                       ->         ...
            ...

    Only when the name is stored once and loaded once in the whole function, the reading statement is an `if`, an
    `assert`, a `return` or an assignment of a conditional expression (a `while` test is evaluated again), and nothing
    is evaluated between the two (the name is the test, its negation, or the first operand of an and / or)."""

    COND = (ast.Compare, ast.BoolOp, ast.UnaryOp, ast.Call, ast.Attribute, ast.Subscript)

    def _scan(self, fn):
        stores, loads = {}, {}
        for n in ast.walk(fn):
            if isinstance(n, ast.Name):
                d = stores if isinstance(n.ctx, (ast.Store, ast.Del)) else loads
                d[n.id] = d.get(n.id, 0) + 1
            elif isinstance(n, ast.arg):
                stores[n.arg] = stores.get(n.arg, 0) + 1
            elif isinstance(n, (ast.Global, ast.Nonlocal)):
                for x in n.names:
                    stores[x] = stores.get(x, 0) + 2
        return {k for k in stores if stores[k] == 1 and loads.get(k, 0) == 1}

    @staticmethod
    def _first_slot(test, name):
        """the node of `test` that is evaluated first, if it is the name (possibly negated): returns (parent, field, index)"""
        if isinstance(test, ast.Name) and test.id == name:
            return ("self", None, None)
        if isinstance(test, ast.UnaryOp) and isinstance(test.op, ast.Not):
            r = _NamedConditions._first_slot(test.operand, name)
            if r is not None:
                return (test, "operand", None) if r[0] == "self" else r
        if isinstance(test, ast.BoolOp) and test.values:
            r = _NamedConditions._first_slot(test.values[0], name)
            if r is not None:
                return (test, "values", 0) if r[0] == "self" else r
        return None

    def _fold(self, body, single):
        out, i = [], 0
        while i < len(body):
            st = body[i]
            nxt = body[i + 1] if i + 1 < len(body) else None
            if isinstance(st, ast.Assign) and len(st.targets) == 1 and isinstance(st.targets[0], ast.Name) \
                    and st.targets[0].id in single and isinstance(st.value, self.COND) and nxt is not None:
                name = st.targets[0].id
                holder, field = None, None
                if isinstance(nxt, (ast.If, ast.Assert)):
                    holder, field = nxt, "test"
                elif isinstance(nxt, ast.Return) and nxt.value is not None:
                    holder, field = nxt, "value"
                elif isinstance(nxt, ast.Assign) and isinstance(nxt.value, ast.IfExp):
                    holder, field = nxt.value, "test"
                if holder is not None:
                    slot = self._first_slot(getattr(holder, field), name)
                    if slot is not None:
                        val = st.value
                        if slot[0] == "self":
                            setattr(holder, field, val)
                        elif slot[2] is None:
                            setattr(slot[0], slot[1], val)
                        else:
                            getattr(slot[0], slot[1])[slot[2]] = val
                        i += 1
                        continue
            out.append(st)
            i += 1
        return out

    def visit_FunctionDef(self, node):
        self.generic_visit(node)
        for _ in range(3):
            single = self._scan(node)
            if not single:
                break
            for holder in ast.walk(node):
                for field in ("body", "orelse", "finalbody"):
                    b = getattr(holder, field, None)
                    if isinstance(b, list) and b and isinstance(b[0], ast.stmt):
                        nb = self._fold(b, single)
                        if len(nb) != len(b):
                            setattr(holder, field, nb)
        return node


def desugar_match(tree, renames=None):
    """normal forms applied once, right after parsing, so that every engine sees spellings it knows: qualified names for
    `from numpy / math import ..`, higher-order spellings made first-order, method aliases read through, simple `match`
    statements -> if chains, type(x) -> x.__class__, written-out asserts.  Each pass works on its own copy: a pass that
    fails leaves the tree as it was (the engines then meet the original spelling and say `undecided` where they do not
    know it) -- a failing normaliser must never take the analysis down, nor change a verdict"""
    import copy as _copy
    from verifkit import funcnorm
    passes = ([("renamed private fields", lambda t: _FieldRename(*renames).visit(t))] if renames and (renames[0] or renames[1]) else []) + [
              ("import names", lambda t: _ImportCanon(t).visit(t)),
              ("module constants", lambda t: _ModuleConstants(t).visit(t)),
              ("higher-order spellings", funcnorm.normalise),
              ("method aliases", lambda t: _AliasInline(t).visit(t)),
              ("match statements", lambda t: _MatchDesugar().visit(t)),
              ("type(x)", lambda t: _TypeCall().visit(t)),
              ("written-out asserts", lambda t: _AssertForm().visit(t)),
              ("contextlib.suppress", lambda t: _SuppressForm().visit(t)),
              ("named conditions", lambda t: _NamedConditions().visit(t))]
    for label, fn in passes:
        work = _copy.deepcopy(tree)
        try:
            work = fn(work)
            ast.fix_missing_locations(work)
            compile(work, "<normalised>", "exec", dont_inherit=True)     # still a well-formed module (nothing is run)
            tree = work
        except Exception as ex:                                            # noqa: BLE001
            NORMALISER_NOTES.append(f"normal-form pass `{label}` skipped: {type(ex).__name__}: {ex}")
    return ast.fix_missing_locations(tree)
