"""R09.1: the point maps of Point2D.move / scale / rotate as linear forms in the
old coordinates, with read-after-write hazard detection and classification
(translation / rotation / general linear)."""
import ast

from . import poly
from .model import AnalysisError

U = ast.unparse
TRIG = ("np.cos", "np.sin", "math.cos", "math.sin", "numpy.cos", "numpy.sin")


class Undecided(Exception):
    pass


def point_map(fn, fields=("_x", "_y")):
    """({'_x': poly, '_y': poly}, hazards) in atoms X, Y (old coordinates) and
    parameter atoms.  A hazard is a read of a coordinate after it was written."""
    selfn = fn.node.args.args[0].arg
    env = {}
    state = {fields[0]: poly.atom("X"), fields[1]: poly.atom("Y")}
    written = set()
    hazards = []

    def ev(e):
        if isinstance(e, ast.Constant) and isinstance(e.value, (int, float)) and not isinstance(e.value, bool):
            return poly.const(e.value if isinstance(e.value, int) else poly.Fraction(str(e.value)))
        if isinstance(e, ast.Name):
            return env[e.id] if e.id in env else poly.atom(e.id)
        if isinstance(e, ast.Attribute) and isinstance(e.value, ast.Name) and e.value.id == selfn and e.attr in state:
            if e.attr in written:
                hazards.append((e.lineno, e.attr))
            return state[e.attr]
        if isinstance(e, ast.Subscript) and isinstance(e.value, ast.Name) and e.value.id == selfn \
                and isinstance(e.slice, ast.Constant) and e.slice.value in (0, 1):
            f = fields[e.slice.value]
            if f in written:
                hazards.append((e.lineno, f))
            return state[f]
        if isinstance(e, ast.Subscript) and isinstance(e.slice, ast.Constant):
            return poly.atom(f"{U(e.value)}[{e.slice.value}]")
        if isinstance(e, ast.BinOp):
            l, r = ev(e.left), ev(e.right)
            if isinstance(e.op, ast.Add):
                return poly.add(l, r)
            if isinstance(e.op, ast.Sub):
                return poly.sub(l, r)
            if isinstance(e.op, ast.Mult):
                return poly.mul(l, r)
            raise Undecided(U(e))
        if isinstance(e, ast.UnaryOp) and isinstance(e.op, ast.USub):
            return poly.neg(ev(e.operand))
        if isinstance(e, ast.UnaryOp) and isinstance(e.op, ast.UAdd):
            return ev(e.operand)
        if isinstance(e, ast.Call) and U(e.func) in TRIG and len(e.args) == 1:
            return poly.atom(f"{U(e.func).split('.')[-1]}({U(e.args[0])})")
        raise Undecided(U(e))

    def validation_only(st):
        """a statement that binds nothing and stores nothing: float(x) / assert / `for f in (a, b): float(f)` /
        `if not ok: raise`"""
        for n in ast.walk(st):
            if isinstance(n, (ast.Assign, ast.AugAssign, ast.AnnAssign, ast.Delete, ast.NamedExpr, ast.Return,
                              ast.Break, ast.Continue)):
                return False
            if isinstance(n, ast.Call) and isinstance(n.func, ast.Attribute) and pat_root(n.func.value) == selfn:
                return False      # a method of the point itself may move it
        return True

    def pat_root(e):
        while isinstance(e, (ast.Attribute, ast.Subscript, ast.Call)):
            e = e.func if isinstance(e, ast.Call) else e.value
        return e.id if isinstance(e, ast.Name) else None

    for st in fn.node.body:
        if isinstance(st, ast.Expr):
            continue   # docstring / validation call such as float(x)
        if isinstance(st, (ast.For, ast.If, ast.Assert, ast.While, ast.Try, ast.With, ast.Pass)) and validation_only(st):
            continue
        if isinstance(st, ast.Return):
            break
        if isinstance(st, ast.Assign) and len(st.targets) == 1:
            tg = st.targets[0]
            if isinstance(tg, ast.Tuple) and isinstance(st.value, ast.Tuple) and len(tg.elts) == len(st.value.elts):
                vals = [ev(v) for v in st.value.elts]
                for t, v in zip(tg.elts, vals):
                    if isinstance(t, ast.Name):
                        env[t.id] = v
                    elif isinstance(t, ast.Attribute) and t.attr in state and U(t.value) == selfn:
                        state[t.attr] = v
                        written.add(t.attr)
                    else:
                        raise Undecided(U(st))
            elif isinstance(tg, ast.Name):
                env[tg.id] = ev(st.value)
            elif isinstance(tg, ast.Attribute) and tg.attr in state and U(tg.value) == selfn:
                v = ev(st.value)
                state[tg.attr] = v
                written.add(tg.attr)
            else:
                raise Undecided(U(st))
        elif isinstance(st, ast.AugAssign) and isinstance(st.target, ast.Attribute) and st.target.attr in state \
                and U(st.target.value) == selfn:
            cur = state[st.target.attr]   # reading the own old value is fine
            v = ev(st.value)
            if isinstance(st.op, ast.Add):
                new = poly.add(cur, v)
            elif isinstance(st.op, ast.Sub):
                new = poly.sub(cur, v)
            elif isinstance(st.op, ast.Mult):
                new = poly.mul(cur, v)
            else:
                raise Undecided(U(st))
            state[st.target.attr] = new
            written.add(st.target.attr)
        else:
            raise Undecided(U(st)[:60])
    return state, hazards


def matrix(state, fields=("_x", "_y")):
    a11, a12 = poly.coef(state[fields[0]], "X"), poly.coef(state[fields[0]], "Y")
    a21, a22 = poly.coef(state[fields[1]], "X"), poly.coef(state[fields[1]], "Y")
    b1 = poly.free_of(poly.free_of(state[fields[0]], "X"), "Y")
    b2 = poly.free_of(poly.free_of(state[fields[1]], "X"), "Y")
    return (a11, a12, a21, a22), (b1, b2)


def is_linear(state, fields=("_x", "_y")):
    for f in fields:
        for m in state[f]:
            if m.count("X") + m.count("Y") > 1:
                return False
    return True


def classify(state, fields=("_x", "_y")):
    (a11, a12, a21, a22), (b1, b2) = matrix(state, fields)
    one = poly.const(1)
    if not is_linear(state, fields):
        return "non-linear"
    if a11 == one and a22 == one and not a12 and not a21:
        return "translation"
    if a11 == a22 and a12 == poly.neg(a21) and not b1 and not b2:
        c, s_ = list(a11.keys()), list(a21.keys())
        if len(c) == 1 and len(s_) == 1 and len(c[0]) == 1 and len(s_[0]) == 1 \
                and a11[c[0]] == 1 and a21[s_[0]] == 1 \
                and c[0][0].startswith("cos(") and s_[0][0].startswith("sin(") and c[0][0][4:] == s_[0][0][4:]:
            return "rotation"
    return "general-linear"


def point_kinds(ctx):
    """classification of every in-place coordinate map of Point2D (derived, not frozen)"""
    def build(ctx):
        out = {}
        for name, fn in ctx.model.methods["Point2D"].items():
            writes = any(isinstance(n, (ast.Assign, ast.AugAssign)) and any(
                isinstance(x, ast.Attribute) and x.attr in ("_x", "_y")
                for t in (n.targets if isinstance(n, ast.Assign) else [n.target]) for x in ast.walk(t))
                for n in ast.walk(fn.node))
            if not writes or name == "__init__":
                continue
            try:
                state, haz = point_map(fn)
                out[fn.qname] = (classify(state), state, haz)
            except Undecided as e:
                out[fn.qname] = ("undecided", None, [str(e)])
        return out
    return ctx.engine("point_kinds", build)


ISOMETRY = ("translation", "rotation")
